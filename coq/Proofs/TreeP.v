(* Lemmas about Model/Tree.v (taxonomy) -- umbrella file.

   Re-exports TreeValidateP (validator = strict tree; parent_of/children_of/ancestors),
   TreeLeavesP (leaf lists, leaf pairs), TreeDropP (drop_level, drop_leaf_level, flatten,
   drop_cells), TreeLabelsP (get_taxonomy_tree) and adds the one-edit mutants (among them the
   repeated child, finding F3, refused since the repair), the two gaps of the validator that are
   left, and the combined statements used by Props/C10.v.

   Lemmas meant for the other models (election / mapping / markers):
     children_parent_of      In c (children_of (nth k t []) p) -> parent_of (nth k t []) c = Some p
     parent_of_children      the converse (needs NoDup keys)
     node_has_parent         every node of level k+1 has a parent at level k
     validate_inner_nodup / validate_flat / validate_child_lists   no accepted child list repeats a name
     listed_child_exists     every listed child is a node of the next level
     ancestors_path / path_unique / ancestors_levels / ancestors_chk_ok
     leaves_of_children / leaves_of_disjoint / leaves_of_nodup / level_partition
     leaf_pairs_exact
     drop_level_accepted     drop_level t li = TOk (raw_drop t li) on an accepted tree
     raw_drop_nth / raw_drop_length / raw_drop_wf / raw_drop_validate
     raw_drop_parent_of      parent in the reduced tree = grand-parent at the dropped position
     raw_drop_children       children in the reduced tree = grand-children at the dropped position
     raw_drop_ancestors      ancestors in the reduced tree = ancestors in t without level li
     flatten_accepted / drop_cells_accepted / drop_leaf_level_accepted
     ancestor_at_self / _step / _chain / _in   the ancestor of a node at a given level (Model: ancestor_at)
     raw_drop_ancestor_at    ancestor_at in the reduced tree = ancestor_at in t at the lifted positions
     leaves_of_ancestor      In l (leaves_of t k x) <-> ancestor_at t (length t - 1) l k = Some x
     drop_levels_preserve    any sequence of drops (drops_ok / up_levels): closure, leaf level, nodes, ancestors
     from_labels_exact       get_taxonomy_tree: verdict and content in one statement
   In Proofs/TreeBackfillP.v: backfill_spec, backfill_fills, backfill_reduced (backfill_assignments),
     drop_levels_leaves / drop_level_leaves (leaf lists of a reduced tree). *)
From Coq Require Import ZArith List Bool Lia Permutation.
From CTM Require Import Base.Sx Base.ListX Base.SortX Model.Tree.
From CTM Require Export Proofs.TreeValidateP Proofs.TreeLeavesP Proofs.TreeDropP Proofs.TreeLabelsP.
Import ListNotations.
Open Scope Z_scope.

(* ------------------------------------------------------------------ soundness in one statement *)
Theorem validate_sound t : validate t = true ->
  t <> [] /\
  (forall k, (S k < length t)%nat ->
     (forall c, In c (nodes (nth (S k) t [])) ->
        exists p, lists (nth k t []) p c /\ forall p', lists (nth k t []) p' c -> p' = p) /\
     (forall p c, lists (nth k t []) p c -> In c (nodes (nth (S k) t []))) /\
     (forall p cs, In (p, cs) (nth k t []) -> NoDup cs)) /\
  NoDup (leaf_rows t) /\
  (forall l l' r, lists (leaf_level t) l r -> lists (leaf_level t) l' r -> l = l') /\
  inner_nodup t.
Proof.
  intros V. pose proof (proj1 (validate_iff t) V) as (NE & S & R & F). split; [exact NE|].
  split; [|split; [exact R|split; [|apply validate_inner_nodup; exact V]]].
  - intros k Hk. destruct (S k Hk) as (S1 & S2 & S3). split; [|split; [exact S2|]].
    + intros c Hc. destruct (S1 c Hc) as [p Hp]. exists p. split; [exact Hp|]. intros p' Hp'. apply (S3 p' p c); assumption.
    + apply flat_nodup_child_lists. apply F. exact Hk.
  - intros l l' r. apply rows_one_leaf. exact V.
Qed.

(* the verdict, unfolded: for any list of levels, and for Python dicts (pairwise different keys),
   where "the child lists laid end to end repeat no name" splits into one parent per child and
   no repeat inside a list *)
Theorem validate_exact t :
  validate t = true <->
  t <> [] /\
  (forall k, (S k < length t)%nat ->
     (forall c, In c (nodes (nth (S k) t [])) -> exists p, lists (nth k t []) p c) /\
     (forall p c, lists (nth k t []) p c -> In c (nodes (nth (S k) t []))) /\
     (forall p p' c, lists (nth k t []) p c -> lists (nth k t []) p' c -> p = p') /\
     NoDup (concat (map snd (nth k t [])))) /\
  NoDup (leaf_rows t).
Proof.
  rewrite validate_iff. unfold strict_pair, flat_nodup. split.
  - intros (NE & S & R & F). split; [exact NE|]. split; [|exact R].
    intros k Hk. destruct (S k Hk) as (S1 & S2 & S3). repeat (split; [assumption|]). apply F. exact Hk.
  - intros (NE & S & R). split; [exact NE|]. split; [|split; [exact R|]].
    + intros k Hk. destruct (S k Hk) as (S1 & S2 & S3 & _). repeat (split; [assumption|]). exact S3.
    + intros k Hk. destruct (S k Hk) as (_ & _ & _ & S4). exact S4.
Qed.

Theorem validate_exact_dict t : wf t ->
  (validate t = true <->
   t <> [] /\
   (forall k, (S k < length t)%nat ->
      (forall c, In c (nodes (nth (S k) t [])) -> exists p, lists (nth k t []) p c) /\
      (forall p c, lists (nth k t []) p c -> In c (nodes (nth (S k) t []))) /\
      (forall p p' c, lists (nth k t []) p c -> lists (nth k t []) p' c -> p = p') /\
      (forall p cs, In (p, cs) (nth k t []) -> NoDup cs)) /\
   NoDup (leaf_rows t)).
Proof.
  intros W. rewrite validate_exact. split; intros (NE & S & R); (split; [exact NE|]); (split; [|exact R]);
    intros k Hk; destruct (S k Hk) as (S1 & S2 & S3 & S4); repeat (split; [assumption|]).
  - apply flat_nodup_child_lists. exact S4.
  - apply all_children_nodup; [apply wf_nth; exact W | exact S4 | exact S3].
Qed.

(* ------------------------------------------------------------------ completeness: defects *)
Theorem validate_complete t :
  ((exists k c, (S k < length t)%nat /\ In c (nodes (nth (S k) t [])) /\ forall p, ~ lists (nth k t []) p c)
     -> validate t = false) /\
  ((exists k p c, (S k < length t)%nat /\ lists (nth k t []) p c /\ ~ In c (nodes (nth (S k) t [])))
     -> validate t = false) /\
  ((exists k p p' c, (S k < length t)%nat /\ lists (nth k t []) p c /\ lists (nth k t []) p' c /\ p <> p')
     -> validate t = false) /\
  ((exists l l' r, lists (leaf_level t) l r /\ lists (leaf_level t) l' r /\ l <> l')
     -> validate t = false) /\
  ((exists l rs, In (l, rs) (leaf_level t) /\ ~ NoDup rs) -> validate t = false) /\
  ((exists k p cs, (S k < length t)%nat /\ In (p, cs) (nth k t []) /\ ~ NoDup cs) -> validate t = false).
Proof.
  assert (G : forall P : Prop, (validate t = true -> ~ P) -> P -> validate t = false).
  { intros P H HP. destruct (validate t) eqn:E; [exfalso; apply (H eq_refl HP) | reflexivity]. }
  split; [|split; [|split; [|split; [|split]]]]; apply G; intros V.
  - intros (k & c & Hk & Hc & Hn). destruct (validate_strict t k V Hk) as (S1 & _ & _).
    destruct (S1 c Hc) as [p Hp]. apply (Hn p Hp).
  - intros (k & p & c & Hk & Hl & Hn). destruct (validate_strict t k V Hk) as (_ & S2 & _). apply Hn, (S2 p c Hl).
  - intros (k & p & p' & c & Hk & Hl & Hl' & Hne). destruct (validate_strict t k V Hk) as (_ & _ & S3).
    apply Hne, (S3 p p' c); assumption.
  - intros (l & l' & r & Hl & Hl' & Hne). apply Hne. apply (rows_one_leaf t l l' r V Hl Hl').
  - intros (l & rs & Hin & Hn). apply Hn. pose proof (proj1 (validate_iff t) V) as (_ & _ & R & _).
    unfold leaf_rows in R. destruct (concat_nodup_entries _ R) as (R1 & _). apply (R1 l rs Hin).
  - intros (k & p & cs & Hk & Hin & Hn). apply Hn. apply (validate_child_lists t k V Hk p cs Hin).
Qed.

(* ------------------------------------------------------------------ completeness: one-edit mutants *)
(* append c to the child list of p / append a new node *)
Definition add_child (lv : level) (p c : Z) : level :=
  map (fun nc => if fst nc =? p then (fst nc, snd nc ++ [c]) else nc) lv.
Definition add_node (lv : level) (x : Z) (cs : list Z) : level := lv ++ [(x, cs)].

Lemma add_child_nodes lv p c : nodes (add_child lv p c) = nodes lv.
Proof.
  unfold add_child, nodes. rewrite map_map. apply map_ext. intros [q cs]. cbn. destruct (q =? p); reflexivity.
Qed.

Lemma add_child_lists lv p c q d :
  lists (add_child lv p c) q d <-> lists lv q d \/ (q = p /\ d = c /\ In p (nodes lv)).
Proof.
  unfold add_child. induction lv as [|[q0 cs0] t IH]; cbn [map].
  - split; [intros H; destruct (lists_nil _ _ H) | intros [H|(_ & _ & [])]; destruct (lists_nil _ _ H)].
  - cbn [fst snd]. destruct (q0 =? p) eqn:E.
    + apply Z.eqb_eq in E. subst q0. rewrite !lists_cons, IH. cbn [nodes map fst In]. split.
      * intros [[-> Hd]|[H|(-> & -> & H)]].
        -- apply in_app_iff in Hd. destruct Hd as [Hd|[<-|[]]]; [left; left; tauto | right; tauto].
        -- left. right. exact H.
        -- right. tauto.
      * intros [[[-> Hd]|H]|(-> & -> & _)].
        -- left. split; [reflexivity | apply in_app_iff; left; exact Hd].
        -- right. left. exact H.
        -- left. split; [reflexivity | apply in_app_iff; right; left; reflexivity].
    + apply Z.eqb_neq in E. rewrite !lists_cons, IH. cbn [nodes map fst In]. split.
      * intros [H|[H|(-> & -> & H)]]; [left; left; exact H | left; right; exact H | right; tauto].
      * intros [[H|H]|(-> & -> & [H|H])]; [left; exact H | right; left; exact H | congruence | right; right; tauto].
Qed.

Lemma replace_nth_length {A} n (x : A) l : length (replace_nth n x l) = length l.
Proof. revert l. induction n as [|n IH]; intros l; destruct l as [|a t]; cbn; try reflexivity. rewrite IH. reflexivity. Qed.

Lemma leaf_level_replace_last t x : t <> [] -> leaf_level (replace_nth (length t - 1) x t) = x.
Proof.
  intros NE. unfold leaf_level. rewrite last_is_nth, replace_nth_length.
  rewrite nth_replace_nth by (destruct t; [congruence | cbn; lia]). rewrite Nat.eqb_refl. reflexivity.
Qed.

Theorem mutants_rejected t :
  (* dangling child: a name that is not a node of the next level is added to a child list *)
  (forall k p c, (S k < length t)%nat -> In p (nodes (nth k t [])) -> ~ In c (nodes (nth (S k) t [])) ->
     validate (replace_nth k (add_child (nth k t []) p c) t) = false) /\
  (* second parent: a child of p is also listed under another node p' *)
  (forall k p p' c, (S k < length t)%nat -> lists (nth k t []) p c -> In p' (nodes (nth k t [])) -> p' <> p ->
     validate (replace_nth k (add_child (nth k t []) p' c) t) = false) /\
  (* orphan child: a new node is added below the top and nobody lists it *)
  (forall k c cs, (S k < length t)%nat -> (forall p, ~ lists (nth k t []) p c) ->
     validate (replace_nth (S k) (add_node (nth (S k) t []) c cs) t) = false) /\
  (* shared row: a row that some leaf owns is appended to a leaf (another one, or the same) *)
  (forall l l' r, t <> [] -> lists (leaf_level t) l r -> In l' (nodes (leaf_level t)) ->
     validate (replace_nth (length t - 1) (add_child (leaf_level t) l' r) t) = false) /\
  (* duplicate child (finding F3, repaired): a child that p lists is listed under p once more *)
  (forall k p c, (S k < length t)%nat -> lists (nth k t []) p c ->
     validate (replace_nth k (add_child (nth k t []) p c) t) = false).
Proof.
  split; [|split; [|split; [|split]]].
  - intros k p c Hk Hp Hn. apply (proj1 (proj2 (validate_complete _))).
    exists k, p, c. rewrite replace_nth_length. split; [exact Hk|].
    rewrite !nth_replace_nth by lia. rewrite Nat.eqb_refl. replace (S k =? k)%nat with false by (symmetry; apply Nat.eqb_neq; lia).
    split; [apply add_child_lists; right; tauto | exact Hn].
  - intros k p p' c Hk Hl Hp' Hne. apply (proj1 (proj2 (proj2 (validate_complete _)))).
    exists k, p, p', c. rewrite replace_nth_length. split; [exact Hk|].
    rewrite !nth_replace_nth by lia. rewrite Nat.eqb_refl.
    split; [apply add_child_lists; left; exact Hl|]. split; [apply add_child_lists; right; tauto | congruence].
  - intros k c cs Hk Hn. apply (proj1 (validate_complete _)).
    exists k, c. rewrite replace_nth_length. split; [exact Hk|].
    rewrite !nth_replace_nth by lia. rewrite Nat.eqb_refl. replace (k =? S k)%nat with false by (symmetry; apply Nat.eqb_neq; lia).
    split; [|exact Hn]. unfold add_node, nodes. rewrite map_app. apply in_or_app. right. left. reflexivity.
  - intros l l' r NE Hl Hl'.
    destruct (validate (replace_nth (length t - 1) (add_child (leaf_level t) l' r) t)) eqn:V; [exfalso | reflexivity].
    pose proof (proj1 (validate_iff _) V) as (_ & _ & R & _). unfold leaf_rows in R.
    rewrite leaf_level_replace_last in R by exact NE.
    destruct (concat_nodup_entries _ R) as (R1 & R2).
    destruct (in_nodes_entry _ _ Hl') as [rs' Hin'].
    assert (Hnew : In (l', rs' ++ [r]) (add_child (leaf_level t) l' r)).
    { unfold add_child. apply in_map_iff. exists (l', rs'). cbn [fst snd]. rewrite Z.eqb_refl. split; [reflexivity | exact Hin']. }
    destruct Hl as (rs & Hin & Hr).
    destruct (Z.eq_dec l l') as [->|Hne].
    + (* the same leaf: either this very entry (then r is repeated), or two entries sharing r *)
      assert (Hnew2 : In (l', rs ++ [r]) (add_child (leaf_level t) l' r)).
      { unfold add_child. apply in_map_iff. exists (l', rs). cbn [fst snd]. rewrite Z.eqb_refl. split; [reflexivity | exact Hin]. }
      pose proof (R1 _ _ Hnew2) as ND. apply NoDup_app_inv in ND. destruct ND as (_ & _ & D).
      apply (D r Hr). left. reflexivity.
    + assert (Hold : In (l, rs) (add_child (leaf_level t) l' r)).
      { unfold add_child. apply in_map_iff. exists (l, rs). cbn [fst snd].
        replace (l =? l') with false by (symmetry; apply Z.eqb_neq; exact Hne). split; [reflexivity | exact Hin]. }
      assert (E : (l, rs) = (l', rs' ++ [r])).
      { apply (R2 l l' rs (rs' ++ [r]) r Hold Hnew Hr). apply in_or_app. right. left. reflexivity. }
      congruence.
  - intros k p c Hk (cs & Hin & Hc). apply (proj2 (proj2 (proj2 (proj2 (proj2 (validate_complete _)))))).
    exists k, p, (cs ++ [c]). rewrite replace_nth_length. split; [exact Hk|].
    rewrite nth_replace_nth by lia. rewrite Nat.eqb_refl. split.
    + unfold add_child. apply in_map_iff. exists (p, cs). cbn [fst snd]. rewrite Z.eqb_refl. split; [reflexivity | exact Hin].
    + intros ND. apply NoDup_app_inv in ND. destruct ND as (_ & _ & D). apply (D c Hc). left. reflexivity.
Qed.

(* ------------------------------------------------------------------ F3 (repaired) and the gaps that are left *)
(* the witnesses of finding F3: a child listed twice.  Accepted before the repair (the leaf pairs
   then held (1,1) and (1,2) twice, as_leaves repeated leaf 1, drop_leaf_level raised); refused now *)
Definition f3_tree : tree := [[(0, [1; 1; 2])]; [(1, []); (2, [])]].
Definition f3_tree_rows : tree := [[(0, [1; 1; 2])]; [(1, [7]); (2, [8])]].
(* still accepted: an inner node without children, an empty level *)
Definition childless_tree : tree := [[(0, [2]); (1, [])]; [(2, [5])]].
Definition empty_level_tree : tree := [[(0, [])]; []].

Lemma wf_small (t : tree) : forallb (fun lv => znodup_b (nodes lv)) t = true -> wf t.
Proof.
  intros H. apply Forall_forall. intros lv Hlv. apply znodup_b_spec.
  apply (proj1 (forallb_forall _ _) H lv Hlv).
Qed.

Lemma f3_rejected : validate f3_tree = false /\ validate f3_tree_rows = false /\ wf f3_tree /\ wf f3_tree_rows.
Proof. split; [reflexivity|]. split; [reflexivity|]. split; apply wf_small; reflexivity. Qed.

Lemma validator_gaps :
  (validate childless_tree = true /\ children_of (nth 0 childless_tree []) 1 = []) /\
  (validate empty_level_tree = true /\ nth 1 empty_level_tree [(0, [])] = []).
Proof. split; (split; [vm_compute; reflexivity | reflexivity]). Qed.

(* ------------------------------------------------------------------ leaf pairs, including leaf-level parents *)
Theorem leaf_pairs_exact_all t parent :
  validate t = true -> wf t ->
  (forall li x, parent = Some (li, x) -> (li < length t)%nat) ->
  NoDup (leaf_pairs t parent) /\
  forall a b,
    In (a, b) (leaf_pairs t parent) <->
    a < b /\ exists c c', In c (children t parent) /\ In c' (children t parent) /\ c <> c' /\
                          In a (leaves_of t (child_level parent) c) /\
                          In b (leaves_of t (child_level parent) c').
Proof.
  intros V W Hp.
  destruct parent as [[li x]|]; [|apply leaf_pairs_exact; try assumption; intros; discriminate].
  assert (Hli : (li < length t)%nat) by (apply (Hp li x); reflexivity).
  destruct (Nat.eq_dec (S li) (length t)) as [E|E].
  - assert (Hnil : leaf_pairs t (Some (li, x)) = []).
    { unfold leaf_pairs. rewrite E, Nat.eqb_refl. reflexivity. }
    rewrite Hnil. split; [constructor|]. intros a b. split; [intros []|].
    intros (_ & c & c' & _ & _ & _ & Ha & _). cbn [child_level] in Ha. unfold leaves_of in Ha.
    rewrite E, skipn_all in Ha. destruct Ha.
  - apply leaf_pairs_exact; try assumption. intros li' x' E'. inversion E'; subst. lia.
Qed.

(* ------------------------------------------------------------------ combined statements for Props/C10.v *)
Theorem parent_child_inverse t : validate t = true -> wf t ->
  (forall k p c, (S k < length t)%nat ->
     (In c (children_of (nth k t []) p) <-> parent_of (nth k t []) c = Some p)) /\
  (forall k c, (S k < length t)%nat -> In c (nodes (nth (S k) t [])) ->
     exists p, parent_of (nth k t []) c = Some p /\ In p (nodes (nth k t []))) /\
  (forall li x, (li < length t)%nat -> In x (nodes (nth li t [])) ->
     path_ok t li x (ancestors t li x) /\
     (forall l, path_ok t li x l -> l = ancestors t li x) /\
     map fst (ancestors t li x) = rev (seq 0 li) /\
     ancestors_chk t li x = TOk (ancestors t li x)).
Proof.
  intros V W. split; [|split].
  - intros k p c Hk. split; [apply children_parent_of; assumption|].
    intros H. apply (parent_of_children t k p c W H).
  - intros k c Hk Hc. destruct (node_has_parent t V k c Hk Hc) as (p & E & Hp & _). exists p. tauto.
  - intros li x Hli Hx. split; [apply ancestors_path; assumption|]. split; [intros l; apply path_unique; assumption|].
    split; [apply ancestors_levels; assumption | apply ancestors_chk_ok; assumption].
Qed.

Theorem leaves_partition_thm t : validate t = true -> wf t ->
  (* a node's leaf list is the union of its children's, which are pairwise disjoint and repeat no leaf *)
  (forall k x, (S k < length t)%nat ->
     Permutation (leaves_of t k x) (flat_map (leaves_of t (S k)) (children_of (nth k t []) x))) /\
  (forall k x, (S k < length t)%nat ->
     NoDup (flat_map (leaves_of t (S k)) (children_of (nth k t []) x))) /\
  (forall k x, NoDup (leaves_of t k x)) /\
  (* different nodes of a level share no leaf, and every level partitions the leaf set *)
  (forall k x x' l, In l (leaves_of t k x) -> In l (leaves_of t k x') -> x = x') /\
  (forall k, (k < length t)%nat ->
     Permutation (flat_map (leaves_of t k) (nodes (nth k t []))) (nodes (leaf_level t))) /\
  (forall k, (k < length t)%nat ->
     nth k (as_leaves t) [] = map (fun x => (x, leaves_of t k x)) (nodes (nth k t []))).
Proof.
  intros V W. split; [intros k x; apply leaves_of_children; exact V|].
  split; [intros k x Hk; apply (leaves_partition t V k x Hk)|].
  split; [intros k x; apply leaves_of_nodup; exact V|].
  split; [intros k x x' l; apply leaves_of_disjoint; exact V|].
  split; [intros k Hk; apply level_partition; assumption | intros k; apply as_leaves_nth].
Qed.

(* is_equal_to ignores the cells *)
Lemma set_eqb_refl l : set_eqb l l = true.
Proof. unfold set_eqb. rewrite andb_diag. apply forallb_forall. intros x Hx. apply zmem_in. exact Hx. Qed.

Lemma is_equal_to_refl t : is_equal_to t t = true.
Proof.
  induction t as [|lv rest IH]; [reflexivity|]. cbn [is_equal_to]. rewrite set_eqb_refl, IH, andb_true_r. cbn [andb].
  destruct rest; [reflexivity|]. apply forallb_forall. intros x _. apply set_eqb_refl.
Qed.

Lemma is_equal_to_drop_cells t : is_equal_to t (drop_cells t) = true.
Proof.
  destruct t as [|a l] eqn:Et; [reflexivity|]. rewrite <- Et.
  destruct (drop_cells_shape t) as (above & lf & E & ->); [congruence|]. rewrite E. clear.
  induction above as [|lv rest IH].
  - cbn. rewrite nodes_strip, set_eqb_refl. reflexivity.
  - cbn [app is_equal_to]. rewrite set_eqb_refl, IH, andb_true_r. cbn [andb].
    destruct (rest ++ [lf]) eqn:E; [destruct rest; discriminate|]. apply forallb_forall. intros x _. apply set_eqb_refl.
Qed.

Theorem roundtrip_preserves t : validate t = true -> wf t ->
  validate (drop_cells t) = true /\ wf (drop_cells t) /\ length (drop_cells t) = length t /\
  (forall k, nodes (nth k (drop_cells t) []) = nodes (nth k t [])) /\
  (forall k, (S k < length t)%nat -> nth k (drop_cells t) [] = nth k t []) /\
  leaf_rows (drop_cells t) = [] /\
  (forall j x, (j < length t)%nat -> ancestors (drop_cells t) j x = ancestors t j x) /\
  is_equal_to t (drop_cells t) = true /\ is_equal_to t t = true.
Proof.
  intros V W. destruct (drop_cells_accepted t V W) as (A1 & A2 & A3 & A4 & A5 & A6 & A7).
  repeat (split; [assumption|]). split; [apply is_equal_to_drop_cells | apply is_equal_to_refl].
Qed.

(* ------------------------------------------------------------------ get_taxonomy_tree in one statement *)
Theorem from_labels_exact n records : (1 <= n)%nat -> Forall (fun r => length r = n) records ->
  (get_taxonomy_tree n records = TErr E_INVALID <-> two_parents n records) /\
  (~ two_parents n records ->
   exists t, get_taxonomy_tree n records = TOk t /\ validate t = true /\
     length t = n /\ wf t /\ inner_nodup t /\
     (forall k p c, (S k < n)%nat ->
        (lists (nth k t []) p c <->
         exists r, In r records /\ nth_error r k = Some p /\ nth_error r (S k) = Some c)) /\
     (forall k x, (k < n)%nat ->
        (In x (nodes (nth k t [])) <-> exists r, In r records /\ nth_error r k = Some x)) /\
     (forall l i, lists (leaf_level t) l i <->
        exists j r, nth_error records j = Some r /\ nth_error r (n - 1) = Some l /\ i = Z.of_nat j)).
Proof.
  intros Hn F. destruct (from_labels_verdict n Hn records F) as [[E N]|[E T]].
  - split; [rewrite E; split; [discriminate | intros H; contradiction]|].
    intros _. exists (raw_tree n records).
    destruct (raw_tree_spec n Hn records F) as (L & W & I & Ed & Nd & Rw & _).
    split; [exact E|]. split.
    { unfold get_taxonomy_tree, mk_tree in E. fold (raw_tree n records) in E.
      destruct (validate (raw_tree n records)); [reflexivity | discriminate]. }
    repeat (split; [assumption|]). exact Rw.
  - split; [tauto|]. intros H; contradiction.
Qed.

(* ------------------------------------------------------------------ the ancestor at a level *)
Lemma ancestor_at_self (t : tree) li x : ancestor_at t li x li = Some x.
Proof. unfold ancestor_at. rewrite Nat.eqb_refl. reflexivity. Qed.

Lemma ancestor_at_step (t : tree) m y p k : parent_of (nth m t []) y = Some p -> (k <= m)%nat ->
  ancestor_at t (S m) y k = ancestor_at t m p k.
Proof.
  intros E Hk. unfold ancestor_at. replace (k =? S m)%nat with false by (symmetry; apply Nat.eqb_neq; lia).
  cbn [ancestors]. rewrite E. cbn [find fst]. destruct (m =? k)%nat eqn:E1.
  - apply Nat.eqb_eq in E1. subst k. rewrite Nat.eqb_refl. reflexivity.
  - replace (k =? m)%nat with false; [reflexivity|]. symmetry. apply Nat.eqb_neq. apply Nat.eqb_neq in E1. lia.
Qed.

Lemma ancestor_at_none (t : tree) m y k : parent_of (nth m t []) y = None -> (k <= m)%nat -> ancestor_at t (S m) y k = None.
Proof.
  intros E Hk. unfold ancestor_at. replace (k =? S m)%nat with false by (symmetry; apply Nat.eqb_neq; lia).
  cbn [ancestors]. rewrite E. reflexivity.
Qed.

(* the ancestor at level k is the recorded parent of the ancestor at level k+1 *)
Lemma ancestor_at_chain (t : tree) li y k : (k < li)%nat ->
  ancestor_at t li y k = match ancestor_at t li y (S k) with Some c => parent_of (nth k t []) c | None => None end.
Proof.
  revert y. induction li as [|m IH]; intros y Hk; [lia|].
  destruct (parent_of (nth m t []) y) as [p|] eqn:E.
  - rewrite (ancestor_at_step t m y p k E) by lia.
    destruct (Nat.eq_dec k m) as [->|Hne].
    + rewrite !ancestor_at_self. symmetry. exact E.
    + rewrite (ancestor_at_step t m y p (S k) E) by lia. apply IH. lia.
  - rewrite (ancestor_at_none t m y k E) by lia.
    destruct (Nat.eq_dec k m) as [->|Hne].
    + rewrite ancestor_at_self. symmetry. exact E.
    + rewrite (ancestor_at_none t m y (S k) E) by lia. reflexivity.
Qed.

Lemma ancestor_at_in (t : tree) li x k a : (k < li)%nat ->
  (ancestor_at t li x k = Some a <-> In (k, a) (ancestors t li x)).
Proof.
  intros Hk. unfold ancestor_at. replace (k =? li)%nat with false by (symmetry; apply Nat.eqb_neq; lia).
  clear Hk. revert x. induction li as [|m IH]; intros x; cbn [ancestors].
  - cbn. split; [discriminate | intros []].
  - destruct (parent_of (nth m t []) x) as [p|]; [|cbn; split; [discriminate | intros []]].
    cbn [find fst In]. destruct (m =? k)%nat eqn:E.
    + apply Nat.eqb_eq in E. subst m. cbn [option_map snd]. split.
      * intros H. inversion H; subst. left. reflexivity.
      * intros [H|H]; [inversion H; reflexivity|].
        exfalso. assert (G : forall j y, In (k, a) (ancestors t j y) -> (k < j)%nat).
        { clear. induction j as [|j IHj]; intros y; cbn [ancestors]; [intros []|].
          destruct (parent_of (nth j t []) y) as [q|]; [|intros []].
          intros [H|H]; [inversion H; lia | apply IHj in H; lia]. }
        apply G in H. lia.
    + rewrite IH. apply Nat.eqb_neq in E. split; [intros H; right; exact H|].
      intros [H|H]; [inversion H; congruence | exact H].
Qed.

(* squash commutes with looking a level up *)
Lemma find_squash li k (l : list (nat * node)) :
  option_map snd (find (fun a => (fst a =? k)%nat) (squash li l)) =
  option_map snd (find (fun a => (fst a =? up_level li k)%nat) l).
Proof.
  unfold squash, up_level, down_level. induction l as [|[j p] l IH]; [reflexivity|].
  cbn [filter fst]. destruct (j =? li)%nat eqn:E1; cbn [negb].
  - apply Nat.eqb_eq in E1. subst j. rewrite IH. cbn [find fst].
    replace (li =? (if (k <? li)%nat then k else S k))%nat with false; [reflexivity|].
    symmetry. apply Nat.eqb_neq. destruct (k <? li)%nat eqn:E2; [apply Nat.ltb_lt in E2 | apply Nat.ltb_ge in E2]; lia.
  - cbn [map find fst snd]. apply Nat.eqb_neq in E1.
    destruct (j <? li)%nat eqn:E2; [apply Nat.ltb_lt in E2 | apply Nat.ltb_ge in E2];
      (destruct (k <? li)%nat eqn:E3; [apply Nat.ltb_lt in E3 | apply Nat.ltb_ge in E3]).
    + destruct (j =? k)%nat; [reflexivity | exact IH].
    + replace (j =? k)%nat with false by (symmetry; apply Nat.eqb_neq; lia).
      replace (j =? S k)%nat with false by (symmetry; apply Nat.eqb_neq; lia). exact IH.
    + replace (Nat.pred j =? k)%nat with false by (symmetry; apply Nat.eqb_neq; lia).
      replace (j =? k)%nat with false by (symmetry; apply Nat.eqb_neq; lia). exact IH.
    + destruct (j =? S k)%nat eqn:E4.
      * apply Nat.eqb_eq in E4. subst j. cbn [Nat.pred]. rewrite Nat.eqb_refl. reflexivity.
      * apply Nat.eqb_neq in E4. replace (Nat.pred j =? k)%nat with false by (symmetry; apply Nat.eqb_neq; lia). exact IH.
Qed.

Lemma up_level_inj li a b : up_level li a = up_level li b -> a = b.
Proof.
  unfold up_level. destruct (a <? li)%nat eqn:E1; [apply Nat.ltb_lt in E1 | apply Nat.ltb_ge in E1];
    (destruct (b <? li)%nat eqn:E2; [apply Nat.ltb_lt in E2 | apply Nat.ltb_ge in E2]); lia.
Qed.

Lemma raw_drop_ancestor_at t li j x k : validate t = true -> wf t -> (S li < length t)%nat ->
  ancestor_at (raw_drop t li) j x k = ancestor_at t (up_level li j) x (up_level li k).
Proof.
  intros V W H. unfold ancestor_at. rewrite (raw_drop_ancestors t li j x V W H), find_squash.
  destruct (k =? j)%nat eqn:E.
  - apply Nat.eqb_eq in E. subst k. rewrite Nat.eqb_refl. reflexivity.
  - replace (up_level li k =? up_level li j)%nat with false; [reflexivity|].
    symmetry. apply Nat.eqb_neq. intros E'. apply up_level_inj in E'. apply Nat.eqb_neq in E. contradiction.
Qed.

(* ------------------------------------------------------------------ transformations, combined *)
Theorem drop_preserves t li : validate t = true -> wf t -> (S li < length t)%nat ->
  exists t', drop_level t li = TOk t' /\
    validate t' = true /\ wf t' /\ length t' = (length t - 1)%nat /\
    leaf_level t' = leaf_level t /\
    (forall k, nodes (nth k t' []) = nodes (nth (up_level li k) t [])) /\
    (forall j x, ancestors t' j x = squash li (ancestors t (up_level li j) x)) /\
    (forall j x k, ancestor_at t' j x k = ancestor_at t (up_level li j) x (up_level li k)) /\
    inner_nodup t'.
Proof.
  intros V W H. exists (raw_drop t li). split; [apply drop_level_accepted; assumption|].
  destruct (raw_drop_validate t li V W H) as [V' LL].
  split; [exact V'|]. split; [apply raw_drop_wf; exact W|]. split; [apply raw_drop_length; lia|].
  split; [exact LL|]. split; [|split; [|split]].
  - intros k. rewrite raw_drop_nth by lia. unfold up_level.
    destruct (S k =? li)%nat eqn:E; [|destruct (k <? li)%nat; reflexivity].
    apply Nat.eqb_eq in E. subst li. rewrite merge_nodes.
    replace (k <? S k)%nat with true by (symmetry; apply Nat.ltb_lt; lia). reflexivity.
  - intros j x. apply raw_drop_ancestors; assumption.
  - intros j x k. apply raw_drop_ancestor_at; assumption.
  - apply validate_inner_nodup. exact V'.
Qed.

Theorem drop_leaf_preserves t : validate t = true -> wf t -> (2 <= length t)%nat ->
  exists t', drop_leaf_level t = TOk t' /\
    validate t' = true /\ wf t' /\ length t' = (length t - 1)%nat /\
    (forall k, (k < length t - 1)%nat -> nodes (nth k t' []) = nodes (nth k t [])) /\
    (forall j x, (j < length t - 1)%nat -> ancestors t' j x = ancestors t j x) /\
    (forall x, children_of (leaf_level t') x =
               flat_map (children_of (leaf_level t)) (children_of (nth (length t - 2) t []) x)).
Proof.
  intros V W H. exists (raw_drop t (length t - 1)).
  split; [apply drop_leaf_level_accepted; assumption|].
  split; [apply raw_drop_leaf_validate; assumption|]. split; [apply raw_drop_wf; exact W|].
  split; [apply raw_drop_length; lia|]. split; [|split].
  - intros k Hk. rewrite raw_drop_nth by lia.
    destruct (S k =? length t - 1)%nat eqn:E; [apply merge_nodes|].
    replace (k <? length t - 1)%nat with true by (symmetry; apply Nat.ltb_lt; lia). reflexivity.
  - intros j x Hj. apply ancestors_firstn. intros k Hk. rewrite raw_drop_nth by lia.
    replace (S k =? length t - 1)%nat with false by (symmetry; apply Nat.eqb_neq; lia).
    replace (k <? length t - 1)%nat with true by (symmetry; apply Nat.ltb_lt; lia). reflexivity.
  - intros x. unfold leaf_level. rewrite !last_is_nth. rewrite raw_drop_length by lia.
    rewrite raw_drop_nth by lia.
    replace (S (length t - 1 - 1) =? length t - 1)%nat with true by (symmetry; apply Nat.eqb_eq; lia).
    rewrite merge_children_of. replace (length t - 1 - 1)%nat with (length t - 2)%nat by lia. reflexivity.
Qed.

Theorem flatten_preserves t : validate t = true -> wf t ->
  exists t', flatten t = TOk t' /\ validate t' = true /\ wf t' /\ t' = [leaf_level t] /\
    leaf_level t' = leaf_level t /\
    (forall x, ancestors t' 0 x = []) /\
    (forall li, drop_level t' li = TErr E_FLAT) /\ flatten t' = TOk t' /\
    (forall u, leaf_level u = leaf_level t -> flatten u = TOk t').
Proof.
  intros V W. destruct (flatten_accepted t V) as (E & V' & LL). exists [leaf_level t].
  split; [exact E|]. split; [exact V'|]. split; [|split; [reflexivity|split; [exact LL|]]].
  { constructor; [|constructor]. unfold leaf_level. rewrite last_is_nth. apply wf_nth. exact W. }
  split; [reflexivity|]. split; [intros li; apply (proj1 (drop_level_errors [leaf_level t] li)); reflexivity|].
  split; [unfold flatten; rewrite LL; exact E|].
  intros u Hu. unfold flatten. rewrite Hu. exact E.
Qed.

(* ------------------------------------------------------------------ repeated drops *)
Fixpoint drops_ok (n : nat) (lis : list nat) : Prop :=
  match lis with
  | [] => True
  | li :: rest => (S li < n)%nat /\ drops_ok (n - 1) rest
  end.
(* position in the original tree of level j of the tree left after the drops *)
Fixpoint up_levels (lis : list nat) (j : nat) : nat :=
  match lis with
  | [] => j
  | li :: rest => up_level li (up_levels rest j)
  end.

Theorem drop_levels_preserve lis : forall t, validate t = true -> wf t -> drops_ok (length t) lis ->
  exists t', drop_levels t lis = TOk t' /\ validate t' = true /\ wf t' /\
    length t' = (length t - length lis)%nat /\
    leaf_level t' = leaf_level t /\ flatten t' = flatten t /\
    (forall k, nodes (nth k t' []) = nodes (nth (up_levels lis k) t [])) /\
    (forall j x k, ancestor_at t' j x k = ancestor_at t (up_levels lis j) x (up_levels lis k)) /\
    inner_nodup t'.
Proof.
  induction lis as [|li rest IH]; intros t V W OK.
  - exists t. cbn [drop_levels length up_levels]. rewrite Nat.sub_0_r. repeat (split; [reflexivity || assumption|]).
    apply validate_inner_nodup. exact V.
  - destruct OK as [Hli OK]. destruct (drop_preserves t li V W Hli) as (t1 & E1 & V1 & W1 & L1 & LL1 & N1 & _ & A1 & I1).
    rewrite <- L1 in OK. destruct (IH t1 V1 W1 OK) as (t' & E & V' & W' & L' & LL' & F' & N' & A' & I').
    exists t'. cbn [drop_levels]. rewrite E1. split; [exact E|]. split; [exact V'|]. split; [exact W'|].
    split; [cbn [length]; lia|]. split; [congruence|].
    split; [rewrite F'; unfold flatten; rewrite LL1; reflexivity|].
    split; [intros k; cbn [up_levels]; rewrite N', N1; reflexivity|].
    split; [intros j x k; cbn [up_levels]; rewrite A', A1; reflexivity | exact I'].
Qed.


(* ------------------------------------------------------------------ leaf lists = leaves by ancestor *)
(* the leaf list of node x of level k holds exactly the leaves whose ancestor at level k is x *)
Theorem leaves_of_ancestor t : validate t = true -> wf t ->
  forall k x l, (k < length t)%nat ->
    (In l (leaves_of t k x) <-> ancestor_at t (length t - 1) l k = Some x).
Proof.
  intros V W.
  assert (G : forall d k x l, (k + d = length t - 1)%nat -> (k < length t)%nat ->
            (In l (leaves_of t k x) <-> ancestor_at t (length t - 1) l k = Some x)).
  { induction d as [|d IH]; intros k x l Hd Hk.
    - replace k with (length t - 1)%nat by lia. rewrite (leaves_of_leaf t V), ancestor_at_self. cbn [In].
      split; [intros [->|[]]; reflexivity | intros E; inversion E; left; reflexivity].
    - assert (Hk' : (S k < length t)%nat) by lia.
      rewrite (ancestor_at_chain t (length t - 1) l k) by lia. split.
      + intros H. apply (Permutation_in _ (leaves_of_children t k x Hk')) in H.
        apply in_flat_map in H. destruct H as (c & Hc & Hl).
        apply (IH (S k) c l) in Hl; [|lia|lia]. rewrite Hl. apply (children_parent_of t V k x c Hk' Hc).
      + intros H. destruct (ancestor_at t (length t - 1) l (S k)) as [c|] eqn:Ec; [|discriminate].
        apply (Permutation_in _ (Permutation_sym (leaves_of_children t k x Hk'))).
        apply in_flat_map. exists c. split; [apply (parent_of_children t k x c W H)|].
        apply (IH (S k) c l); [lia | lia | exact Ec]. }
  intros k x l Hk. apply (G (length t - 1 - k)%nat); lia.
Qed.
