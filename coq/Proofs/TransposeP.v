(* Lemmas about Model/Transpose.v, part 1: slices and chunks of the entry list, the
   count pass (_calculate_csr_indptr) and the pointer array of the specification. *)
From Coq Require Import List Arith ZArith Lia Bool.
From CTM Require Import Base.Sx Base.ListX Model.Sparse Model.Transpose Proofs.SparseP.
Import ListNotations.

(* ================================================================ apply_slice, chunks *)
Lemma apply_slice_app sl a b : apply_slice sl (a ++ b) = apply_slice sl a ++ apply_slice sl b.
Proof. destruct sl as [s|]; cbn; [|reflexivity]. rewrite filter_app, map_app. reflexivity. Qed.

Lemma apply_slice_nil sl : apply_slice sl [] = [].
Proof. destruct sl; reflexivity. Qed.

Lemma apply_slice_concat sl cs : apply_slice sl (concat cs) = concat (map (apply_slice sl) cs).
Proof.
  induction cs as [|c t IH]; cbn; [apply apply_slice_nil|]. rewrite apply_slice_app, IH. reflexivity.
Qed.

Lemma chunks_of_concat {A} (l : list A) c : 1 <= c -> concat (chunks_of l c) = l.
Proof. intros H. unfold chunks_of. apply range_chunks_cover. exact H. Qed.

(* ================================================================ counting *)
Lemma count_of_app r a b : count_of r (a ++ b) = count_of r a + count_of r b.
Proof. unfold count_of. rewrite filter_app, app_length. reflexivity. Qed.

Lemma count_of_absent r l : existsb (Nat.eqb r) l = false -> count_of r l = 0.
Proof.
  unfold count_of. induction l as [|x t IH]; cbn; intros H; [reflexivity|].
  apply orb_false_iff in H. destruct H as [H1 H2]. rewrite H1. apply IH. exact H2.
Qed.

Lemma count_of_out_row r (l : list entry) : count_of r (map e_minor l) = length (out_row l r).
Proof.
  unfold count_of, out_row. induction l as [|x t IH]; cbn; [reflexivity|].
  rewrite (Nat.eqb_sym r (e_minor x)). destruct (e_minor x =? r); cbn; rewrite IH; reflexivity.
Qed.

Lemma out_row_app a b r : out_row (a ++ b) r = out_row a r ++ out_row b r.
Proof. unfold out_row. apply filter_app. Qed.

Lemma uniq_in_NoDup a n l : NoDup (uniq_in a n l).
Proof. unfold uniq_in. apply NoDup_filter. apply seq_NoDup. Qed.

Lemma uniq_in_In a n l r :
  In r (uniq_in a n l) <-> (a <= r < a + n /\ existsb (Nat.eqb r) l = true).
Proof. unfold uniq_in. rewrite filter_In, in_seq. tauto. Qed.

(* cumulative_count[unq_val] += unq_ct  for distinct in-range values *)
Lemma count_fold_spec rows rs : forall cn,
  NoDup rs -> (forall r, In r rs -> r < length cn) ->
  let out := fold_left (fun cn r => upd cn r (nth r cn 0 + count_of r rows)) rs cn in
  length out = length cn /\
  forall r, (In r rs -> nth r out 0 = nth r cn 0 + count_of r rows) /\
            (~ In r rs -> nth r out 0 = nth r cn 0).
Proof.
  induction rs as [|a t IH]; intros cn ND HR; cbn [fold_left].
  - split; [reflexivity|]. intros r. split; [intros [] | reflexivity].
  - inversion ND as [|? ? Ha NDt]; subst.
    set (cn' := upd cn a (nth a cn 0 + count_of a rows)).
    assert (L' : length cn' = length cn) by apply upd_length.
    destruct (IH cn' NDt) as [IL IN].
    { intros r Hr. rewrite L'. apply HR. right. exact Hr. }
    split; [rewrite IL; exact L'|].
    intros r. destruct (IN r) as [I1 I2]. split.
    + intros [<-|Hr].
      * rewrite (I2 Ha). unfold cn'. apply nth_upd_eq. apply HR. left. reflexivity.
      * rewrite (I1 Hr). f_equal. unfold cn'. apply nth_upd_neq. intros ->. contradiction.
    + intros Hn. rewrite I2 by (intros Hr; apply Hn; right; exact Hr).
      unfold cn'. apply nth_upd_neq. intros ->. apply Hn. left. reflexivity.
Qed.

(* one load chunk of the count pass adds the chunk's per-row counts *)
Lemma count_chunk_spec sl st chunk :
  let rows := map e_minor (apply_slice sl chunk) in
  let st' := count_chunk sl st chunk in
  length (fst st') = length (fst st) /\
  (forall r, r < length (fst st) -> nth r (fst st') 0 = nth r (fst st) 0 + count_of r rows) /\
  snd st' = snd st + length rows.
Proof.
  cbn zeta. unfold count_chunk. cbn [fst snd].
  set (rows := map e_minor (apply_slice sl chunk)).
  destruct (count_fold_spec rows (uniq_in 0 (length (fst st)) rows) (fst st)) as [HL HN].
  - apply uniq_in_NoDup.
  - intros r Hr. apply uniq_in_In in Hr. lia.
  - split; [exact HL|]. split; [|reflexivity].
    intros r Hr. destruct (HN r) as [H1 H2].
    destruct (existsb (Nat.eqb r) rows) eqn:E.
    + apply H1. apply uniq_in_In. split; [lia | exact E].
    + rewrite (count_of_absent _ _ E), Nat.add_0_r. apply H2.
      intros Hi. apply uniq_in_In in Hi. destruct Hi as [_ Hi]. congruence.
Qed.

Lemma count_fold_chunks sl n : forall chunks st pre,
  length (fst st) = n ->
  (forall r, r < n -> nth r (fst st) 0 = count_of r (map e_minor (apply_slice sl pre))) ->
  snd st = length (apply_slice sl pre) ->
  let st' := fold_left (count_chunk sl) chunks st in
  length (fst st') = n /\
  (forall r, r < n -> nth r (fst st') 0 = count_of r (map e_minor (apply_slice sl (pre ++ concat chunks)))) /\
  snd st' = length (apply_slice sl (pre ++ concat chunks)).
Proof.
  induction chunks as [|c t IH]; intros st pre HL HN HS; cbn [fold_left concat].
  - rewrite app_nil_r. auto.
  - destruct (count_chunk_spec sl st c) as (CL & CN & CS).
    rewrite app_assoc. apply IH.
    + rewrite CL. exact HL.
    + intros r Hr. rewrite CN by lia. rewrite (HN r Hr).
      rewrite apply_slice_app, map_app, count_of_app. reflexivity.
    + rewrite CS, HS, apply_slice_app, app_length, map_length. reflexivity.
Qed.

Lemma nth_repeat0 n r : nth r (repeat 0 n) 0 = 0.
Proof. revert r. induction n as [|n IH]; intros [|r]; cbn; auto. Qed.

(* the per-row counts of the specification *)
Definition cnts (es : list entry) (n : nat) : list nat :=
  map (fun r => length (out_row es r)) (seq 0 n).

(* the count pass: prefix sums of the exact per-row counts, whatever the chunk size *)
Theorem calc_indptr_spec es n sl Lc :
  1 <= Lc ->
  calc_indptr es n sl Lc = (0 :: cumsum_from 0 (cnts (apply_slice sl es) n), length (apply_slice sl es)).
Proof.
  intros HL. unfold calc_indptr.
  destruct (count_fold_chunks sl n (chunks_of es Lc) (repeat 0 n, 0) []) as (FL & FN & FS).
  - cbn. apply repeat_length.
  - intros r Hr. cbn [fst]. rewrite apply_slice_nil. cbn. apply nth_repeat0.
  - rewrite apply_slice_nil. reflexivity.
  - cbn [app] in *. rewrite chunks_of_concat in * by exact HL.
    f_equal; [|exact FS]. f_equal. f_equal.
    apply (nth_ext _ _ 0 0).
    + unfold cnts. rewrite map_length, seq_length. exact FL.
    + intros r Hr. rewrite FL in Hr. rewrite (FN r Hr). unfold cnts.
      rewrite (nth_indep _ 0 (length (out_row (apply_slice sl es) 0)))
        by (rewrite map_length, seq_length; exact Hr).
      rewrite (map_nth (fun r0 => length (out_row (apply_slice sl es) r0)) (seq 0 n) 0 r).
      rewrite seq_nth by exact Hr. apply count_of_out_row.
Qed.

Corollary calc_indptr_chunk_independent es n sl Lc Lc' :
  1 <= Lc -> 1 <= Lc' -> calc_indptr es n sl Lc = calc_indptr es n sl Lc'.
Proof. intros H1 H2. rewrite !calc_indptr_spec by assumption. reflexivity. Qed.

(* ================================================================ offsets *)
(* off es r = number of entries of the rows before r = csr_indptr[r] *)
Definition off (es : list entry) (r : nat) : nat := sum_list (cnts es r).

Lemma cnts_length es n : length (cnts es n) = n.
Proof. unfold cnts. rewrite map_length, seq_length. reflexivity. Qed.

Lemma cnts_S es n : cnts es (S n) = cnts es n ++ [length (out_row es n)].
Proof. unfold cnts. rewrite seq_S, map_app. reflexivity. Qed.

Lemma off_S es r : off es (S r) = off es r + length (out_row es r).
Proof. unfold off. rewrite cnts_S, sum_list_app. unfold sum_list. cbn. lia. Qed.

Lemma off_mono es a b : a <= b -> off es a <= off es b.
Proof. induction 1 as [|b _ IH]; [lia|]. rewrite off_S. lia. Qed.

Lemma firstn_cnts es r n : r <= n -> firstn r (cnts es n) = cnts es r.
Proof.
  intros H. unfold cnts. rewrite firstn_map. rewrite firstn_seq_x. rewrite Nat.min_l by exact H. reflexivity.
Qed.

Lemma nth_psum l : forall acc r, r <= length l ->
  nth r (acc :: cumsum_from acc l) 0 = acc + sum_list (firstn r l).
Proof.
  induction l as [|x t IH]; intros acc r Hr.
  - cbn in Hr. replace r with 0 by lia. cbn. lia.
  - destruct r as [|r]; [cbn; lia|].
    change (nth (S r) (acc :: cumsum_from acc (x :: t)) 0)
      with (nth r ((acc + x) :: cumsum_from (acc + x) t) 0).
    rewrite IH by (cbn in Hr; lia). unfold sum_list. cbn. lia.
Qed.

Lemma nth_iptr es n r : r <= n -> nth r (0 :: cumsum_from 0 (cnts es n)) 0 = off es r.
Proof.
  intros H. rewrite nth_psum by (rewrite cnts_length; exact H). rewrite firstn_cnts by exact H.
  reflexivity.
Qed.

Lemma iptr_length es n : length (0 :: cumsum_from 0 (cnts es n)) = S n.
Proof. cbn. rewrite cumsum_length, cnts_length. reflexivity. Qed.

(* rows 0..n-1 together are the entries whose row is below n *)
Lemma spec_entries_length es n :
  length (spec_entries es n) = length (filter (fun e => e_minor e <? n) es).
Proof.
  unfold spec_entries. induction n as [|n IH].
  - cbn. induction es as [|x t IHt]; [reflexivity | exact IHt].
  - rewrite seq_S, map_app, concat_app, app_length, IH. cbn [map concat Nat.add].
    rewrite app_nil_r. unfold out_row.
    clear IH. induction es as [|x t IHt]; [reflexivity|]. cbn [filter].
    destruct (Nat.ltb_spec (e_minor x) n); destruct (Nat.eqb_spec (e_minor x) n);
      destruct (Nat.ltb_spec (e_minor x) (S n)); cbn [length]; lia.
Qed.

Lemma spec_entries_off es n : length (spec_entries es n) = off es n.
Proof.
  unfold spec_entries, off, cnts. induction n as [|n IH]; [reflexivity|].
  rewrite seq_S, !map_app, concat_app, app_length, sum_list_app, IH. cbn.
  rewrite app_nil_r. unfold sum_list. cbn. lia.
Qed.

Lemma filter_all {A} (f : A -> bool) l : Forall (fun x => f x = true) l -> filter f l = l.
Proof. induction 1 as [|x t Hx _ IH]; cbn; [reflexivity|]. rewrite Hx, IH. reflexivity. Qed.

Lemma off_total es n : Forall (fun e => e_minor e < n) es -> off es n = length es.
Proof.
  intros H. rewrite <- spec_entries_off, spec_entries_length. f_equal. apply filter_all.
  eapply Forall_impl; [|exact H]. cbn. intros e He. apply Nat.ltb_lt. exact He.
Qed.

(* ================================================================ the rows in a slice *)
Lemma apply_slice_minor_lt m ud imax sl :
  (sl = None -> Forall (fun r => r < imax) (idx m)) ->
  Forall (fun e => e_minor e < n_out_of imax sl) (apply_slice sl (all_entries m ud)).
Proof.
  intros HF. apply Forall_forall. intros e He. destruct sl as [[lo hi]|]; cbn in *.
  - apply in_map_iff in He. destruct He as (e0 & <- & He0). apply filter_In in He0.
    destruct He0 as [_ Hs]. unfold in_slice in Hs. cbn in Hs. apply andb_true_iff in Hs.
    destruct Hs as [H1 H2]. apply Nat.leb_le in H1. apply Nat.ltb_lt in H2. cbn. lia.
  - unfold all_entries in He. apply in_map_iff in He. destruct He as (k & <- & Hk).
    apply in_seq in Hk. cbn. specialize (HF eq_refl). rewrite Forall_forall in HF. apply HF. apply nth_In. lia.
Qed.

(* ================================================================ pointer-array clauses *)
(* the pointer array of the specification starts at 0, is monotone, has one entry per
   output row plus one and ends at the number of stored entries of the slice *)
Theorem spec_ptr_clauses m ud imax sl :
  (sl = None -> Forall (fun r => r < imax) (idx m)) ->
  let out := transpose_spec m ud imax sl in
  let es := apply_slice sl (all_entries m ud) in
  hd 1 (ptr out) = 0 /\ mono (ptr out) /\ length (ptr out) = S (n_out_of imax sl) /\
  last (ptr out) 0 = length (idx out) /\ length (idx out) = length es /\
  (ud = true -> length (dat out) = length (idx out)).
Proof.
  intros HF. cbn zeta. unfold transpose_spec. cbn [ptr idx dat].
  set (es := apply_slice sl (all_entries m ud)). set (n := n_out_of imax sl).
  fold (cnts es n).
  assert (HT : off es n = length es).
  { apply off_total. apply apply_slice_minor_lt. exact HF. }
  split; [reflexivity|]. split; [apply cumsum_mono|]. split; [apply iptr_length|].
  rewrite !map_length, spec_entries_off. split; [|split; [exact HT|]].
  - rewrite cumsum_last. reflexivity.
  - intros ->. cbv iota. rewrite map_length. apply spec_entries_off.
Qed.
