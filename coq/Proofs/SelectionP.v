(* Lemmas about Model/Selection.v (C12). *)
From Coq Require Import ZArith List Bool Arith Lia Permutation.
From CTM Require Import Base.Sx Base.ListX Base.SortX Model.Tree Model.Selection.
Import ListNotations.
Local Open Scope nat_scope.

(* ------------------------------------------------------------------ counting *)
Definition b2n (b : bool) : nat := if b then 1 else 0.

Lemma count_nil {A} (f : A -> bool) : count f [] = 0.
Proof. reflexivity. Qed.
Lemma count_cons {A} (f : A -> bool) x l : count f (x :: l) = b2n (f x) + count f l.
Proof. unfold count. cbn. destruct (f x); reflexivity. Qed.
Lemma count_app {A} (f : A -> bool) l1 l2 : count f (l1 ++ l2) = count f l1 + count f l2.
Proof. unfold count. rewrite filter_app, app_length. reflexivity. Qed.
Lemma count_ext_in {A} (f g : A -> bool) l : (forall x, In x l -> f x = g x) -> count f l = count g l.
Proof.
  induction l as [|x t IH]; intros H; [reflexivity|]. rewrite !count_cons, (H x) by (left; reflexivity).
  rewrite IH; [reflexivity|]. intros y Hy. apply H. right. exact Hy.
Qed.
Lemma count_split {A} (f g h : A -> bool) l :
  (forall x, In x l -> b2n (f x) = b2n (g x) + b2n (h x)) -> count f l = count g l + count h l.
Proof.
  induction l as [|x t IH]; intros H; [reflexivity|]. rewrite !count_cons, (H x) by (left; reflexivity).
  rewrite IH; [lia|]. intros y Hy. apply H. right. exact Hy.
Qed.
Lemma count_filter {A} (f g : A -> bool) l : count f (filter g l) = count (fun x => g x && f x) l.
Proof.
  induction l as [|x t IH]; [reflexivity|]. cbn [filter]. rewrite count_cons.
  destruct (g x); cbn [andb]; [rewrite count_cons, IH; reflexivity | rewrite IH; reflexivity].
Qed.
Lemma count_pos {A} (f : A -> bool) l : 0 < count f l <-> exists x, In x l /\ f x = true.
Proof.
  unfold count. split.
  - intros H. destruct (filter f l) as [|x r] eqn:E; [cbn in H; lia|].
    assert (Hx : In x (filter f l)) by (rewrite E; left; reflexivity).
    apply filter_In in Hx. exists x. exact Hx.
  - intros (x & Hx & Hf). assert (Hi : In x (filter f l)) by (apply filter_In; auto).
    destruct (filter f l); [destruct Hi | cbn; lia].
Qed.
Lemma count_perm {A} (f : A -> bool) l l' : Permutation l l' -> count f l = count f l'.
Proof.
  intros H. induction H as [|x l l' _ IH|x y l|l l' l'' _ IH1 _ IH2]; [reflexivity| | |congruence].
  - rewrite !count_cons, IH. reflexivity.
  - rewrite !count_cons. lia.
Qed.
(* if every f-element of a duplicate-free l is in l', l' has at least as many f-elements *)
Lemma count_incl (f : nat -> bool) l l' :
  NoDup l -> (forall x, In x l -> f x = true -> In x l') -> count f l <= count f l'.
Proof.
  intros ND H. unfold count. apply NoDup_incl_length.
  - apply NoDup_filter. exact ND.
  - intros x Hx. apply filter_In in Hx. destruct Hx as [H1 H2]. apply filter_In. auto.
Qed.
Lemma count_or_disjoint {A} (f g : A -> bool) l :
  (forall x, In x l -> f x = true -> g x = false) ->
  count (fun x => f x || g x) l = count f l + count g l.
Proof.
  intros H. apply count_split. intros x Hx. specialize (H x Hx).
  destruct (f x), (g x); cbn; try reflexivity. discriminate (H eq_refl).
Qed.

Lemma nmem_in x l : nmem x l = true <-> In x l.
Proof.
  unfold nmem. rewrite existsb_exists. split.
  - intros (y & Hy & E). apply Nat.eqb_eq in E. subst. exact Hy.
  - intros H. exists x. split; [exact H | apply Nat.eqb_refl].
Qed.
Lemma nmem_false x l : nmem x l = false <-> ~ In x l.
Proof. rewrite <- nmem_in. destruct (nmem x l); split; congruence. Qed.

Lemma slot_eqb_eq a b : slot_eqb a b = true <-> a = b.
Proof.
  destruct a as [p d], b as [p' d']. unfold slot_eqb. cbn.
  rewrite andb_true_iff, Nat.eqb_eq, eqb_true_iff. split; [intros [-> ->]; reflexivity | intros H; inversion H; auto].
Qed.
Lemma existsb_slot s l : existsb (slot_eqb s) l = true <-> In s l.
Proof.
  rewrite existsb_exists. split.
  - intros (y & Hy & E). apply slot_eqb_eq in E. subst. exact Hy.
  - intros H. exists s. split; [exact H | apply slot_eqb_eq; reflexivity].
Qed.

Lemma fold_max_ge (l : list Z) (b x : Z) : In x l -> (x <= fold_right Z.max b l)%Z.
Proof.
  induction l as [|y t IH]; intros H; [destruct H|]. cbn. destruct H as [->|H]; [lia|]. specialize (IH H). lia.
Qed.
Lemma fold_max_in (l : list Z) (b : Z) : fold_right Z.max b l = b \/ In (fold_right Z.max b l) l.
Proof.
  induction l as [|y t IH]; [left; reflexivity|]. cbn.
  destruct (Z.max_spec y (fold_right Z.max b t)) as [[_ E]|[_ E]]; rewrite E.
  - destruct IH as [IH|IH]; [left; exact IH | right; right; exact IH].
  - right. left. reflexivity.
Qed.

Section SelP.
Variable n_genes : nat.
Variable pairs : list nat.
Variable marks : nat -> slot -> bool.
Variable n : nat.

Notation genes := (genes n_genes).
Notation slots := (slots pairs).
Notation census := (census n_genes marks).
Notation are_possible := (are_possible n_genes marks n).
Notation update_filled := (update_filled n_genes pairs marks n).
Notation newly := (newly n_genes marks n).
Notation choose := (choose marks).
Notation step := (step n_genes pairs marks n).
Notation finished := (finished n_genes pairs).
Notation max_utility := (max_utility n_genes).
Notation all_filled := (all_filled pairs).
Notation desperate := (desperate n_genes pairs marks n).
Notation start := (start n_genes pairs marks n).
Notation run := (run n_genes pairs marks n).
Notation init := (init pairs marks).

Lemma genes_in g : In g genes <-> g < n_genes.
Proof. unfold Selection.genes. rewrite in_seq. lia. Qed.
Lemma genes_nodup : NoDup genes.
Proof. apply seq_NoDup. Qed.
Lemma slot_in p d : In (p, d) slots <-> In p pairs.
Proof.
  unfold Selection.slots. rewrite in_flat_map. split.
  - intros (q & Hq & H). cbn in H. destruct H as [H|[H|[]]]; inversion H; subst; exact Hq.
  - intros H. exists p. split; [exact H|]. destruct d; cbn; auto.
Qed.

(* ghost definitions *)
Definition cnt (ch : list nat) (s : slot) : nat := count (fun g => marks g s) ch.
Definition util (fl : slot -> bool) (g : nat) : nat := count (fun s => marks g s && negb (fl s)) slots.
(* one of the three filling conditions holds (in their monotone form) *)
Definition fillable (st : state) (s : slot) : Prop :=
  (n <= counts st s /\ are_possible (fst s) = true) \/
  census s <= counts st s \/
  2 * n <= aggr st (fst s).

(* the invariant of the loop *)
Record J (st : state) : Prop := {
  J_nodup : NoDup (chosen st);
  J_genes : forall g, In g (chosen st) -> g < n_genes;
  J_useful : forall g, In g (chosen st) -> exists s, In s slots /\ marks g s = true;
  J_counts : forall s, counts st s = cnt (chosen st) s;
  J_aggr : forall p, aggr st p = counts st (p, false) + counts st (p, true);
  J_util : forall g, ~ In g (chosen st) -> utility st g = Z.of_nat (util (filled st) g);
  J_taken : forall g, In g (chosen st) -> (utility st g < 0)%Z;
  J_filled : forall s, filled st s = true -> In s slots /\ fillable st s
}.

Lemma J_init : J init.
Proof.
  constructor.
  - cbn. constructor.
  - cbn. intros g [].
  - cbn. intros g [].
  - intros s. reflexivity.
  - intros p. reflexivity.
  - intros g _. cbn [Selection.init utility filled]. unfold utility0, util. f_equal.
    apply count_ext_in. intros s _. rewrite andb_true_r. reflexivity.
  - cbn. intros g [].
  - cbn. intros s H. discriminate.
Qed.

Lemma cnt_le_census st s : J st -> cnt (chosen st) s <= census s.
Proof.
  intros HJ. unfold cnt, Selection.census. apply count_incl; [apply (J_nodup _ HJ)|].
  intros g Hg _. apply genes_in. apply (J_genes _ HJ). exact Hg.
Qed.

(* ---------------- update_filled ---------------- *)
Lemma filled_update st s :
  filled (update_filled st) s = filled st s || (newly st s && existsb (slot_eqb s) slots).
Proof.
  unfold Selection.update_filled. cbn [filled].
  destruct (filled st s) eqn:Ef; [reflexivity|]. cbn [orb].
  destruct (existsb (slot_eqb s) (filter (newly st) slots)) eqn:E.
  - apply existsb_slot, filter_In in E. destruct E as [E1 E2]. rewrite E2. cbn.
    symmetry. apply existsb_slot. exact E1.
  - destruct (newly st s) eqn:En; [|reflexivity]. cbn.
    destruct (existsb (slot_eqb s) slots) eqn:E2; [|reflexivity].
    apply existsb_slot in E2. assert (H : In s (filter (newly st) slots)) by (apply filter_In; auto).
    apply existsb_slot in H. congruence.
Qed.
Lemma filled_update_in st s : In s slots -> filled (update_filled st) s = filled st s || newly st s.
Proof.
  intros H. rewrite filled_update. apply existsb_slot in H. rewrite H, andb_true_r. reflexivity.
Qed.
Lemma filled_update_mono st s : filled st s = true -> filled (update_filled st) s = true.
Proof. intros H. rewrite filled_update, H. reflexivity. Qed.

Lemma newly_fillable st s : newly st s = true -> filled st s = false /\ fillable st s.
Proof.
  unfold Selection.newly, fillable. rewrite andb_true_iff, negb_true_iff, !orb_true_iff, andb_true_iff.
  rewrite !Nat.leb_le, Nat.eqb_eq. intros [Hf [[[H1 H2]|H]|H]]; split; auto.
  right. left. lia.
Qed.

Lemma util_update st g :
  util (filled st) g = util (filled (update_filled st)) g + count (fun s => marks g s) (filter (newly st) slots).
Proof.
  unfold util. rewrite count_filter. apply count_split. intros s Hs.
  rewrite (filled_update_in st s Hs).
  destruct (newly st s) eqn:En.
  - destruct (newly_fillable _ _ En) as [Ef _]. rewrite Ef. cbn. destruct (marks g s); reflexivity.
  - rewrite orb_false_r. cbn. destruct (marks g s && negb (filled st s)); reflexivity.
Qed.

Lemma J_update st : J st -> J (update_filled st).
Proof.
  intros HJ. constructor.
  - apply (J_nodup _ HJ).
  - apply (J_genes _ HJ).
  - apply (J_useful _ HJ).
  - apply (J_counts _ HJ).
  - apply (J_aggr _ HJ).
  - intros g Hg. change (chosen (update_filled st)) with (chosen st) in Hg.
    unfold Selection.update_filled at 1. cbn [utility].
    rewrite (J_util _ HJ g Hg), (util_update st g). lia.
  - intros g Hg. change (chosen (update_filled st)) with (chosen st) in Hg.
    unfold Selection.update_filled. cbn [utility]. pose proof (J_taken _ HJ g Hg). lia.
  - intros s Hs. rewrite filled_update in Hs. apply orb_true_iff in Hs. destruct Hs as [Hs|Hs].
    + destruct (J_filled _ HJ s Hs) as [H1 H2]. split; [exact H1 | exact H2].
    + apply andb_true_iff in Hs. destruct Hs as [H1 H2]. apply existsb_slot in H2.
      split; [exact H2|]. apply newly_fillable in H1. apply H1.
Qed.

(* ---------------- choose ---------------- *)
Lemma fillable_choose st g s : fillable st s -> fillable (choose st g) s.
Proof.
  unfold fillable. cbn [Selection.choose counts aggr]. intros [[H1 H2]|[H|H]].
  - left. split; [lia | exact H2].
  - right. left. lia.
  - right. right. lia.
Qed.

Lemma J_choose st g :
  J st -> ~ In g (chosen st) -> g < n_genes -> (exists s, In s slots /\ marks g s = true) -> J (choose st g).
Proof.
  intros HJ Hn Hg Hu. constructor; cbn [Selection.choose chosen counts aggr filled utility].
  - apply NoDup_app; [apply (J_nodup _ HJ) | repeat constructor; intros [] | ].
    intros x Hx [->|[]]. contradiction.
  - intros h Hh. apply in_app_iff in Hh. destruct Hh as [Hh|[<-|[]]]; [apply (J_genes _ HJ h Hh) | exact Hg].
  - intros h Hh. apply in_app_iff in Hh. destruct Hh as [Hh|[<-|[]]]; [apply (J_useful _ HJ h Hh) | exact Hu].
  - intros s. unfold cnt. rewrite count_app, count_cons, count_nil. rewrite (J_counts _ HJ). unfold cnt, b2n. lia.
  - intros p. rewrite (J_aggr _ HJ). lia.
  - intros h Hh. rewrite in_app_iff in Hh. destruct (Nat.eqb h g) eqn:E.
    + apply Nat.eqb_eq in E. subst. exfalso. apply Hh. right. left. reflexivity.
    + apply (J_util _ HJ). tauto.
  - intros h Hh. destruct (Nat.eqb h g) eqn:E; [lia|].
    apply Nat.eqb_neq in E. apply in_app_iff in Hh. destruct Hh as [Hh|[->|[]]]; [apply (J_taken _ HJ h Hh) | congruence].
  - intros s Hs. destruct (J_filled _ HJ s Hs) as [H1 H2]. split; [exact H1 | apply fillable_choose; exact H2].
Qed.

(* ---------------- the desperate phase ---------------- *)
Lemma pair_genes_in p g : In g (pair_genes n_genes marks p) ->
  g < n_genes /\ (marks g (p, false) = true \/ marks g (p, true) = true).
Proof.
  unfold pair_genes. rewrite filter_In, orb_true_iff, genes_in. tauto.
Qed.

Lemma J_desperate_inner st p gs :
  J st -> In p pairs -> (forall g, In g gs -> In g (pair_genes n_genes marks p)) ->
  J (fold_left (fun st g => if nmem g (chosen st) then st else choose st g) gs st).
Proof.
  intros HJ Hp. revert st HJ. induction gs as [|g r IH]; intros st HJ Hg; cbn; [exact HJ|].
  apply IH; [|intros h Hh; apply Hg; right; exact Hh].
  destruct (nmem g (chosen st)) eqn:E; [exact HJ|].
  apply nmem_false in E. destruct (pair_genes_in p g (Hg g (or_introl eq_refl))) as [H1 H2].
  apply J_choose; auto.
  destruct H2 as [H2|H2]; [exists (p, false) | exists (p, true)]; split; auto; apply slot_in; exact Hp.
Qed.

Lemma J_desperate st : J st -> J (desperate st).
Proof.
  unfold Selection.desperate.
  assert (Hin : forall p, In p (desperate_pairs n_genes pairs marks n) -> In p pairs).
  { intros p Hp. unfold desperate_pairs in Hp. apply filter_In in Hp. tauto. }
  revert Hin. generalize (desperate_pairs n_genes pairs marks n) as dp.
  intros dp. revert st. induction dp as [|p r IH]; intros st Hin HJ; cbn; [exact HJ|].
  apply IH; [intros q Hq; apply Hin; right; exact Hq|].
  apply (J_desperate_inner st p); auto. apply Hin. left. reflexivity.
Qed.

Lemma J_start : J start.
Proof. unfold Selection.start. apply J_desperate, J_update, J_init. Qed.

(* ---------------- the loop ---------------- *)
Lemma max_utility_ge st g : g < n_genes -> (utility st g <= max_utility st)%Z.
Proof.
  intros H. unfold Selection.max_utility. apply fold_max_ge. apply in_map. apply genes_in. exact H.
Qed.

Lemma step_inv st g st' :
  step st g = Some st' ->
  let st1 := update_filled st in
  finished st1 = false /\ ~ In g (chosen st1) /\ g < n_genes /\
  utility st1 g = max_utility st1 /\ st' = choose st1 g.
Proof.
  unfold Selection.step. cbv zeta.
  destruct (finished (update_filled st)) eqn:F; [discriminate|].
  destruct (negb (nmem g (chosen (update_filled st))) && nmem g genes &&
            (utility (update_filled st) g =? max_utility (update_filled st))%Z) eqn:C; [|discriminate].
  intros H. inversion H; subst st'. apply andb_true_iff in C. destruct C as [C C3].
  apply andb_true_iff in C. destruct C as [C1 C2].
  apply negb_true_iff, nmem_false in C1. apply nmem_in, genes_in in C2. apply Z.eqb_eq in C3.
  repeat split; auto.
Qed.

Lemma not_finished st : finished st = false -> (0 < max_utility st)%Z /\ all_filled st = false.
Proof.
  unfold Selection.finished. rewrite orb_false_iff, Z.leb_gt. tauto.
Qed.

Lemma util_pos st g : J st -> ~ In g (chosen st) -> (0 < utility st g)%Z ->
  exists s, In s slots /\ marks g s = true /\ filled st s = false.
Proof.
  intros HJ Hn Hp. rewrite (J_util _ HJ g Hn) in Hp.
  assert (H : 0 < util (filled st) g) by lia.
  apply count_pos in H. destruct H as (s & Hs & Hm). apply andb_true_iff in Hm.
  destruct Hm as [H1 H2]. apply negb_true_iff in H2. exists s. auto.
Qed.

Lemma J_step st g st' : J st -> step st g = Some st' -> J st'.
Proof.
  intros HJ H. apply step_inv in H. cbv zeta in H. destruct H as (F & Hn & Hg & Hu & ->).
  pose proof (J_update st HJ) as HJ1. apply J_choose; auto.
  apply not_finished in F. destruct F as [F _]. rewrite <- Hu in F.
  destruct (util_pos _ g HJ1 Hn F) as (s & H1 & H2 & _). exists s. auto.
Qed.

Lemma run_inv st trace st' : J st -> run st trace = Some st' ->
  J st' /\ exists st0, J st0 /\ st' = update_filled st0 /\ finished st' = true /\
                       length (chosen st') = length (chosen st) + length trace.
Proof.
  revert st. induction trace as [|g t IH]; intros st HJ H; cbn in H.
  - destruct (finished (update_filled st)) eqn:F; [|discriminate]. inversion H; subst st'.
    split; [apply J_update; exact HJ|]. exists st.
    split; [exact HJ|]. split; [reflexivity|]. split; [exact F|]. cbn. lia.
  - destruct (step st g) as [st1|] eqn:S; [|discriminate].
    pose proof (J_step _ _ _ HJ S) as HJ1. destruct (IH st1 HJ1 H) as (H1 & st0 & H2 & H3 & H4 & H5).
    split; [exact H1|]. exists st0. split; [exact H2|]. split; [exact H3|]. split; [exact H4|].
    apply step_inv in S. cbv zeta in S. destruct S as (_ & _ & _ & _ & ->).
    rewrite H5. cbn [Selection.choose chosen]. rewrite app_length. cbn. lia.
Qed.

(* ---------------- the terminal state: every slot is filled ---------------- *)
Lemma all_filled_spec st : all_filled st = true <-> forall s, In s slots -> filled st s = true.
Proof. unfold Selection.all_filled. apply forallb_forall. Qed.

Lemma terminal_all_filled st0 :
  J st0 -> finished (update_filled st0) = true -> forall s, In s slots -> filled (update_filled st0) s = true.
Proof.
  intros HJ F s Hs. pose proof (J_update _ HJ) as HJ1.
  unfold Selection.finished in F. apply orb_true_iff in F. destruct F as [F|F]; [|apply all_filled_spec; auto].
  apply Z.leb_le in F.
  destruct (filled (update_filled st0) s) eqn:Ef; [reflexivity|]. exfalso.
  (* every marker of s is already chosen *)
  assert (Hall : forall g, In g genes -> marks g s = true -> In g (chosen st0)).
  { intros g Hg Hm. destruct (nmem g (chosen st0)) eqn:E; [apply nmem_in; exact E|].
    apply nmem_false in E. exfalso.
    assert (Hu : (0 < utility (update_filled st0) g)%Z).
    { rewrite (J_util _ HJ1 g E). assert (0 < util (filled (update_filled st0)) g); [|lia].
      apply count_pos. exists s. split; [exact Hs|]. rewrite Hm, Ef. reflexivity. }
    apply genes_in in Hg. pose proof (max_utility_ge (update_filled st0) g Hg). lia. }
  assert (Hc : census s <= counts st0 s).
  { rewrite (J_counts _ HJ). unfold Selection.census, cnt. apply count_incl; [apply genes_nodup | exact Hall]. }
  (* so the update that has just happened filled it *)
  rewrite (filled_update_in st0 s Hs) in Ef. apply orb_false_iff in Ef. destruct Ef as [E1 E2].
  unfold Selection.newly in E2. rewrite E1 in E2. cbn in E2.
  pose proof (cnt_le_census st0 s HJ) as Hle. rewrite <- (J_counts _ HJ) in Hle.
  assert (E3 : (counts st0 s =? census s) = true) by (apply Nat.eqb_eq; lia).
  rewrite E3, orb_true_r in E2. discriminate.
Qed.

(* ---------------- coverage ---------------- *)
Lemma pair_coverage st p :
  J st -> fillable st (p, false) -> fillable st (p, true) ->
  Nat.min (2 * n) (census (p, false) + census (p, true)) <= aggr st p.
Proof.
  intros HJ Hd Hu. rewrite (J_aggr _ HJ).
  pose proof (cnt_le_census st (p, false) HJ) as L1. pose proof (cnt_le_census st (p, true) HJ) as L2.
  rewrite <- (J_counts _ HJ) in L1, L2.
  unfold fillable in Hd, Hu. cbn [fst] in Hd, Hu. rewrite (J_aggr _ HJ) in Hd, Hu.
  assert (P : are_possible p = true -> n <= census (p, false) /\ n <= census (p, true)).
  { unfold Selection.are_possible. rewrite andb_true_iff, !Nat.leb_le. tauto. }
  destruct Hd as [[D1 D2]|[D|D]], Hu as [[U1 U2]|[U|U]]; try (apply P in D2); try (apply P in U2); lia.
Qed.

Definition no_gene_both_ways : Prop := forall g p, marks g (p, true) = true -> marks g (p, false) = false.

Lemma covered_split l p : no_gene_both_ways ->
  covered marks l p = cnt l (p, false) + cnt l (p, true).
Proof.
  intros H. unfold covered, cnt. apply count_or_disjoint. intros g _ Hf.
  destruct (marks g (p, true)) eqn:E; [|reflexivity]. rewrite (H g p E) in Hf. discriminate.
Qed.

Theorem coverage trace st :
  no_gene_both_ways -> run start trace = Some st ->
  forall p, In p pairs ->
    Nat.min (2 * n) (covered marks genes p) <= covered marks (chosen st) p.
Proof.
  intros Hb H p Hp. destruct (run_inv _ _ _ J_start H) as (HJ & st0 & HJ0 & -> & F & _).
  pose proof (terminal_all_filled st0 HJ0 F) as Hall.
  assert (Hd : fillable (update_filled st0) (p, false)).
  { apply (J_filled _ HJ). apply Hall. apply slot_in. exact Hp. }
  assert (Hu : fillable (update_filled st0) (p, true)).
  { apply (J_filled _ HJ). apply Hall. apply slot_in. exact Hp. }
  pose proof (pair_coverage _ p HJ Hd Hu) as C.
  rewrite !covered_split by exact Hb. rewrite (J_aggr _ HJ), !(J_counts _ HJ) in C. exact C.
Qed.

(* ---------------- termination ---------------- *)
Lemma chosen_bound st : J st -> length (chosen st) <= n_genes.
Proof.
  intros HJ. rewrite <- (seq_length n_genes 0). apply NoDup_incl_length; [apply (J_nodup _ HJ)|].
  intros g Hg. apply genes_in. apply (J_genes _ HJ g Hg).
Qed.

Theorem iterations_bounded trace st :
  run start trace = Some st -> length trace + 1 <= n_genes + 1.
Proof.
  intros H. destruct (run_inv _ _ _ J_start H) as (HJ & _ & _ & _ & _ & L).
  pose proof (chosen_bound _ HJ). lia.
Qed.

(* progress: while the loop has not stopped there is a legal choice *)
Lemma first_max_some st : J st -> finished st = false ->
  exists g, first_max n_genes st = Some g /\ ~ In g (chosen st) /\ g < n_genes /\
            utility st g = max_utility st.
Proof.
  intros HJ F. apply not_finished in F. destruct F as [F _].
  unfold first_max.
  destruct (fold_max_in (map (utility st) genes) (-1)%Z) as [E|E].
  - unfold Selection.max_utility in F. rewrite E in F. lia.
  - apply in_map_iff in E. destruct E as (g0 & E & Hg0). fold (max_utility st) in E.
    assert (Hn0 : ~ In g0 (chosen st)).
    { intros Hc. pose proof (J_taken _ HJ g0 Hc). lia. }
    destruct (find (fun g => negb (nmem g (chosen st)) && (utility st g =? max_utility st)%Z) genes) as [g|] eqn:Ef.
    + apply find_some in Ef. destruct Ef as [Hg Hc]. apply andb_true_iff in Hc. destruct Hc as [C1 C2].
      apply negb_true_iff, nmem_false in C1. apply Z.eqb_eq in C2. apply genes_in in Hg.
      exists g. auto.
    + exfalso. pose proof (find_none _ _ Ef g0 Hg0) as Hc. cbv beta in Hc.
      apply nmem_false in Hn0. rewrite Hn0, E, Z.eqb_refl in Hc. discriminate.
Qed.

Theorem progress st : J st -> finished (update_filled st) = false -> exists g st', step st g = Some st'.
Proof.
  intros HJ F. destruct (first_max_some _ (J_update _ HJ) F) as (g & _ & Hn & Hg & Hu).
  exists g, (choose (update_filled st) g). unfold Selection.step. rewrite F.
  apply nmem_false in Hn. rewrite Hn. apply genes_in, nmem_in in Hg. rewrite Hg, Hu, Z.eqb_refl. reflexivity.
Qed.

Lemma greedy_enough fuel st :
  J st -> n_genes - length (chosen st) < fuel ->
  exists st' trace, greedy n_genes pairs marks n fuel st = Some st' /\ run st trace = Some st'.
Proof.
  revert st. induction fuel as [|k IH]; intros st HJ Hf; [lia|]. cbn [greedy].
  destruct (finished (update_filled st)) eqn:F.
  - exists (update_filled st), []. cbn. rewrite F. auto.
  - destruct (first_max_some _ (J_update _ HJ) F) as (g & Eg & Hn & Hg & Hu). rewrite Eg.
    assert (HJ' : J (choose (update_filled st) g)).
    { apply (J_step st g). exact HJ. unfold Selection.step. rewrite F.
      apply nmem_false in Hn. rewrite Hn. apply genes_in, nmem_in in Hg. rewrite Hg, Hu, Z.eqb_refl. reflexivity. }
    pose proof (chosen_bound _ HJ') as B. cbn [Selection.choose chosen] in B. rewrite app_length in B. cbn in B.
    change (chosen (update_filled st)) with (chosen st) in B.
    destruct (IH (choose (update_filled st) g) HJ') as (st' & tr & G & Rn).
    + cbn [Selection.choose chosen]. rewrite app_length. cbn. change (chosen (update_filled st)) with (chosen st). lia.
    + exists st', (g :: tr). split; [exact G|]. cbn [Selection.run]. unfold Selection.step. rewrite F.
      apply nmem_false in Hn. rewrite Hn. apply genes_in, nmem_in in Hg. rewrite Hg, Hu, Z.eqb_refl. cbn. exact Rn.
Qed.

Theorem terminates :
  exists st trace, greedy n_genes pairs marks n (S n_genes) start = Some st /\ run start trace = Some st.
Proof. apply greedy_enough; [apply J_start | lia]. Qed.

(* ---------------- the other clauses ---------------- *)
Theorem no_duplicates trace st : run start trace = Some st -> NoDup (chosen st).
Proof. intros H. destruct (run_inv _ _ _ J_start H) as (HJ & _). apply (J_nodup _ HJ). Qed.

Theorem only_useful_genes trace st : run start trace = Some st ->
  forall g, In g (chosen st) -> g < n_genes /\ exists p d, In p pairs /\ marks g (p, d) = true.
Proof.
  intros H g Hg. destruct (run_inv _ _ _ J_start H) as (HJ & _). split; [apply (J_genes _ HJ g Hg)|].
  destruct (J_useful _ HJ g Hg) as ([p d] & H1 & H2). exists p, d. split; [apply (slot_in p d); exact H1 | exact H2].
Qed.

Theorem invariant trace st : run start trace = Some st ->
  (forall s, counts st s = cnt (chosen st) s) /\
  (forall p, aggr st p = counts st (p, false) + counts st (p, true)) /\
  (forall g, ~ In g (chosen st) -> utility st g = Z.of_nat (util (filled st) g)) /\
  (forall g, In g (chosen st) -> (utility st g < 0)%Z) /\
  (forall s, filled st s = true -> In s slots /\ fillable st s).
Proof.
  intros H. destruct (run_inv _ _ _ J_start H) as (HJ & _).
  split; [apply (J_counts _ HJ)|]. split; [apply (J_aggr _ HJ)|]. split; [apply (J_util _ HJ)|].
  split; [apply (J_taken _ HJ) | apply (J_filled _ HJ)].
Qed.

Theorem filled_monotone st g st' s : step st g = Some st' -> filled st s = true -> filled st' s = true.
Proof.
  intros H Hf. apply step_inv in H. cbv zeta in H. destruct H as (_ & _ & _ & _ & ->).
  cbn [Selection.choose filled]. apply filled_update_mono. exact Hf.
Qed.
End SelP.

Theorem nothing_to_discriminate n_genes marks n trace st :
  run n_genes [] marks n (start n_genes [] marks n) trace = Some st -> chosen st = [] /\ trace = [].
Proof.
  assert (M : forall st0, utility st0 = utility0 [] marks ->
                (max_utility n_genes (update_filled n_genes [] marks n st0) <= 0)%Z).
  { intros st0 E. unfold max_utility, update_filled. cbn [utility slots flat_map filter count length].
    rewrite E. unfold utility0. cbn. induction (genes n_genes) as [|g r IH]; cbn; lia. }
  unfold start, desperate, desperate_pairs. cbn [filter fold_left].
  set (s0 := update_filled n_genes [] marks n (init [] marks)).
  assert (E0 : utility s0 = utility0 [] marks).
  { unfold s0, update_filled. cbn [utility init slots flat_map filter count length]. unfold utility0. cbn.
    reflexivity. }
  destruct trace as [|g t]; cbn.
  - destruct (finished n_genes [] (update_filled n_genes [] marks n s0)); [|discriminate].
    intros H. inversion H. split; reflexivity.
  - unfold step. unfold finished at 1. specialize (M s0 E0). apply Z.leb_le in M. rewrite M. cbn. discriminate.
Qed.

(* ------------------------------------------------------------------ hypothesis of coverage, executable *)
Lemma both_ways_free_sound pd : both_ways_free pd = true -> no_gene_both_ways (marks_of pd).
Proof.
  intros H g p Hm. unfold marks_of in *. cbn [fst snd] in *.
  unfold both_ways_free in H. rewrite forallb_forall in H.
  destruct (Nat.lt_ge_cases p (length pd)) as [L|L].
  - assert (Hin : In (nth p pd ([], [])) pd) by (apply nth_In; exact L).
    specialize (H _ Hin). rewrite forallb_forall in H.
    apply nmem_in in Hm. specialize (H g Hm). apply negb_true_iff in H. exact H.
  - rewrite nth_overflow in Hm by exact L. cbn in Hm. discriminate.
Qed.

(* ------------------------------------------------------------------ the executable statement holds on every run *)
Lemma nodup_b_spec l : nodup_b l = true <-> NoDup l.
Proof.
  induction l as [|x t IH]; cbn; [split; [constructor | reflexivity]|].
  rewrite andb_true_iff, negb_true_iff, nmem_false, IH. split.
  - intros [H1 H2]. constructor; assumption.
  - intros H. inversion H; subst. split; assumption.
Qed.

Theorem spec_holds n_genes pairs marks n trace st :
  no_gene_both_ways marks ->
  run n_genes pairs marks n (start n_genes pairs marks n) trace = Some st ->
  spec_c12 n_genes pairs marks n (chosen st) = true.
Proof.
  intros Hb H. unfold spec_c12. rewrite !andb_true_iff. split; [split|].
  - apply nodup_b_spec. apply (no_duplicates _ _ _ _ _ _ H).
  - apply forallb_forall. intros g Hg.
    destruct (only_useful_genes _ _ _ _ _ _ H g Hg) as (L & p & d & Hp & Hm).
    apply andb_true_iff. split; [apply Nat.ltb_lt; exact L|].
    apply existsb_exists. exists (p, d). split; [apply slot_in; exact Hp | exact Hm].
  - apply forallb_forall. intros p Hp. apply Nat.leb_le.
    pose proof (coverage _ _ _ _ _ _ Hb H p Hp) as C.
    rewrite (covered_split marks (genes n_genes) p Hb) in C. exact C.
Qed.

(* ------------------------------------------------------------------ the order of the pairs is irrelevant *)
(* two states that differ only in the ORDER of the chosen list *)
Definition same_state (a b : state) : Prop :=
  Permutation (chosen a) (chosen b) /\
  (forall s, counts a s = counts b s) /\
  (forall p, aggr a p = aggr b p) /\
  (forall s, filled a s = filled b s) /\
  (forall g, utility a g = utility b g).

Lemma same_state_refl a : same_state a a.
Proof. unfold same_state. repeat split; auto. Qed.
Lemma same_state_trans a b c : same_state a b -> same_state b c -> same_state a c.
Proof.
  intros (A1 & A2 & A3 & A4 & A5) (B1 & B2 & B3 & B4 & B5). unfold same_state.
  split; [eapply Permutation_trans; eassumption|].
  repeat split; intros; [rewrite A2 | rewrite A3 | rewrite A4 | rewrite A5]; auto.
Qed.

Lemma perm_filter {A} (f : A -> bool) l l' : Permutation l l' -> Permutation (filter f l) (filter f l').
Proof.
  intros H. induction H as [|x l l' _ IH|x y l|l l' l'' _ IH1 _ IH2]; cbn.
  - constructor.
  - destruct (f x); [constructor; exact IH | exact IH].
  - destruct (f x), (f y); try apply Permutation_refl. apply perm_swap.
  - eapply Permutation_trans; eassumption.
Qed.
Lemma nmem_perm x l l' : Permutation l l' -> nmem x l = nmem x l'.
Proof.
  intros H. destruct (nmem x l) eqn:E1, (nmem x l') eqn:E2; try reflexivity.
  - apply nmem_in in E1. apply nmem_false in E2. exfalso. apply E2. eapply Permutation_in; eassumption.
  - apply nmem_in in E2. apply nmem_false in E1. exfalso. apply E1.
    eapply Permutation_in; [apply Permutation_sym|]; eassumption.
Qed.
Lemma forallb_perm {A} (f : A -> bool) l l' : Permutation l l' -> forallb f l = forallb f l'.
Proof.
  intros H. induction H as [|x l l' _ IH|x y l|l l' l'' _ IH1 _ IH2]; cbn; [reflexivity| | |congruence].
  - rewrite IH. reflexivity.
  - destruct (f x), (f y); reflexivity.
Qed.
Lemma forallb_ext' {A} (f g : A -> bool) l : (forall x, f x = g x) -> forallb f l = forallb g l.
Proof. intros H. induction l as [|x t IH]; cbn; [reflexivity|]. rewrite H, IH. reflexivity. Qed.
Lemma existsb_perm {A} (f : A -> bool) l l' : Permutation l l' -> existsb f l = existsb f l'.
Proof.
  intros H. induction H as [|x l l' _ IH|x y l|l l' l'' _ IH1 _ IH2]; cbn; [reflexivity| | |congruence].
  - rewrite IH. reflexivity.
  - destruct (f x), (f y); reflexivity.
Qed.
Lemma fold_left_flat_map {A B C} (f : A -> C -> A) (h : B -> list C) ps st :
  fold_left (fun st p => fold_left f (h p) st) ps st = fold_left f (flat_map h ps) st.
Proof.
  revert st. induction ps as [|p r IH]; intros st; cbn; [reflexivity|]. rewrite fold_left_app. apply IH.
Qed.

Section Order.
Variable n_genes : nat.
Variable marks : nat -> slot -> bool.
Variable n : nat.
Variables pairs pairs' : list nat.
Hypothesis Hperm : Permutation pairs pairs'.

Lemma slots_perm : Permutation (slots pairs) (slots pairs').
Proof. unfold slots. apply Permutation_flat_map. exact Hperm. Qed.

Lemma newly_same a b s : same_state a b -> newly n_genes marks n a s = newly n_genes marks n b s.
Proof.
  intros (_ & E2 & E3 & E4 & _). unfold newly. rewrite (E2 s), (E3 (fst s)), (E4 s). reflexivity.
Qed.

Lemma update_same a b : same_state a b ->
  same_state (update_filled n_genes pairs marks n a) (update_filled n_genes pairs' marks n b).
Proof.
  intros E. pose proof E as (E1 & E2 & E3 & E4 & E5). unfold same_state.
  split; [exact E1|]. split; [exact E2|]. split; [exact E3|]. split.
  - intros s. rewrite !filled_update. rewrite (E4 s), (newly_same a b s E).
    rewrite (existsb_perm _ _ _ slots_perm). reflexivity.
  - intros g. unfold update_filled. cbn [utility]. rewrite (E5 g). f_equal. f_equal.
    rewrite !count_filter. rewrite (count_perm _ _ _ slots_perm).
    apply count_ext_in. intros s _. rewrite (newly_same a b s E). reflexivity.
Qed.

Lemma choose_same a b g : same_state a b -> same_state (choose marks a g) (choose marks b g).
Proof.
  intros (E1 & E2 & E3 & E4 & E5). unfold same_state. cbn [choose chosen counts aggr filled utility].
  split; [apply Permutation_app_tail; exact E1|].
  split; [intros s; rewrite E2; reflexivity|].
  split; [intros p; rewrite E3; reflexivity|].
  split; [exact E4|]. intros h. rewrite E5. reflexivity.
Qed.

Lemma finished_same a b : same_state a b -> finished n_genes pairs a = finished n_genes pairs' b.
Proof.
  intros (_ & _ & _ & E4 & E5). unfold finished. f_equal.
  - f_equal. unfold max_utility. f_equal. apply map_ext. exact E5.
  - unfold all_filled. rewrite (forallb_perm _ _ _ slots_perm). apply forallb_ext'. exact E4.
Qed.

Lemma max_utility_same a b : same_state a b -> max_utility n_genes a = max_utility n_genes b.
Proof. intros (_ & _ & _ & _ & E5). unfold max_utility. f_equal. apply map_ext. exact E5. Qed.

Lemma step_same a b g a' : same_state a b -> step n_genes pairs marks n a g = Some a' ->
  exists b', step n_genes pairs' marks n b g = Some b' /\ same_state a' b'.
Proof.
  intros E H. pose proof (update_same a b E) as E'. unfold step in *.
  rewrite <- (finished_same _ _ E').
  destruct (finished n_genes pairs (update_filled n_genes pairs marks n a)); [discriminate|].
  pose proof E' as (P1 & _ & _ & _ & P5).
  rewrite <- (nmem_perm g _ _ P1), <- (P5 g), <- (max_utility_same _ _ E').
  destruct (negb (nmem g (chosen (update_filled n_genes pairs marks n a))) && nmem g (genes n_genes) &&
            (utility (update_filled n_genes pairs marks n a) g =? max_utility n_genes (update_filled n_genes pairs marks n a))%Z);
    [|discriminate].
  inversion H; subst a'. eexists. split; [reflexivity|]. apply choose_same. exact E'.
Qed.

Lemma run_same trace : forall a b a', same_state a b -> run n_genes pairs marks n a trace = Some a' ->
  exists b', run n_genes pairs' marks n b trace = Some b' /\ same_state a' b'.
Proof.
  induction trace as [|g t IH]; intros a b a' E H; cbn in *.
  - pose proof (update_same a b E) as E'. rewrite <- (finished_same _ _ E').
    destruct (finished n_genes pairs (update_filled n_genes pairs marks n a)); [|discriminate].
    inversion H; subst a'. eexists. split; [reflexivity | exact E'].
  - destruct (step n_genes pairs marks n a g) as [a1|] eqn:S; [|discriminate].
    destruct (step_same a b g a1 E S) as (b1 & S' & E1). rewrite S'. apply (IH a1 b1 a' E1 H).
Qed.

(* the desperate phase: taking every not-yet-taken gene of a list, in list order *)
Definition take1 (st : state) (g : nat) : state := if nmem g (chosen st) then st else choose marks st g.
Definition take_all (l : list nat) (st : state) : state := fold_left take1 l st.

Lemma take1_same a b g : same_state a b -> same_state (take1 a g) (take1 b g).
Proof.
  intros E. unfold take1. destruct E as (E1 & E'). rewrite <- (nmem_perm g _ _ E1).
  destruct (nmem g (chosen a)); [split; assumption | apply choose_same; split; assumption].
Qed.
Lemma take_all_same l : forall a b, same_state a b -> same_state (take_all l a) (take_all l b).
Proof.
  induction l as [|g r IH]; intros a b E; cbn; [exact E|]. apply IH. apply take1_same. exact E.
Qed.
Lemma take1_swap a x y : same_state (take1 (take1 a y) x) (take1 (take1 a x) y).
Proof.
  destruct (Nat.eq_dec x y) as [->|Hne]; [apply same_state_refl|].
  unfold take1.
  destruct (nmem y (chosen a)) eqn:Ey, (nmem x (chosen a)) eqn:Ex.
  - rewrite Ey. apply same_state_refl.
  - cbn [choose chosen]. replace (nmem y (chosen a ++ [x])) with true; [apply same_state_refl|].
    symmetry. apply nmem_in, in_app_iff. left. apply nmem_in. exact Ey.
  - cbn [choose chosen]. replace (nmem x (chosen a ++ [y])) with true; [rewrite Ey; apply same_state_refl|].
    symmetry. apply nmem_in, in_app_iff. left. apply nmem_in. exact Ex.
  - cbn [choose chosen].
    replace (nmem x (chosen a ++ [y])) with false.
    2:{ symmetry. apply nmem_false. rewrite in_app_iff. intros [H|[H|[]]]; [apply nmem_false in Ex; contradiction | congruence]. }
    replace (nmem y (chosen a ++ [x])) with false.
    2:{ symmetry. apply nmem_false. rewrite in_app_iff. intros [H|[H|[]]]; [apply nmem_false in Ey; contradiction | congruence]. }
    unfold same_state. cbn [choose chosen counts aggr filled utility].
    split; [rewrite <- !app_assoc; apply Permutation_app_head; apply perm_swap|].
    split; [intros s; lia|]. split; [intros p; lia|]. split; [reflexivity|].
    intros h. destruct (Nat.eqb h x) eqn:E1, (Nat.eqb h y) eqn:E2; reflexivity.
Qed.
Lemma take_all_perm l l' : Permutation l l' -> forall a b, same_state a b -> same_state (take_all l a) (take_all l' b).
Proof.
  intros H. induction H as [|x l l' _ IH|x y l|l l' l'' _ IH1 _ IH2]; intros a b E; cbn.
  - exact E.
  - apply IH. apply take1_same. exact E.
  - apply (same_state_trans _ (take_all l (take1 (take1 a x) y))).
    + apply take_all_same. apply take1_swap.
    + apply take_all_same. apply take1_same, take1_same. exact E.
  - apply (same_state_trans _ (take_all l' a)); [apply IH1; apply same_state_refl | apply IH2; exact E].
Qed.

Lemma desperate_as_take_all ps st :
  desperate n_genes ps marks n st = take_all (flat_map (pair_genes n_genes marks) (desperate_pairs n_genes ps marks n)) st.
Proof. unfold desperate, take_all. apply (fold_left_flat_map take1). Qed.

Lemma desperate_same a b : same_state a b ->
  same_state (desperate n_genes pairs marks n a) (desperate n_genes pairs' marks n b).
Proof.
  intros E. rewrite !desperate_as_take_all. apply take_all_perm; [|exact E].
  apply Permutation_flat_map. unfold desperate_pairs. apply perm_filter. exact Hperm.
Qed.

Lemma init_same : same_state (init pairs marks) (init pairs' marks).
Proof.
  unfold same_state, init. cbn [chosen counts aggr filled utility].
  split; [constructor|]. repeat split; try reflexivity.
  intros g. unfold utility0. f_equal. apply count_perm. exact slots_perm.
Qed.

Lemma start_same : same_state (start n_genes pairs marks n) (start n_genes pairs' marks n).
Proof. unfold start. apply desperate_same, update_same, init_same. Qed.

(* every legal run under one pair order is a legal run, with the same choice sequence, under
   the other; the final states differ only in the order of the (desperate) genes *)
Theorem pair_order_irrelevant trace st :
  run n_genes pairs marks n (start n_genes pairs marks n) trace = Some st ->
  exists st', run n_genes pairs' marks n (start n_genes pairs' marks n) trace = Some st' /\
              Permutation (chosen st) (chosen st') /\
              (forall s, counts st s = counts st' s) /\ (forall s, filled st s = filled st' s).
Proof.
  intros H. destruct (run_same trace _ _ st start_same H) as (st' & R & (E1 & E2 & _ & E4 & _)).
  exists st'. auto.
Qed.
(* a tie-breaking rule that looks only at the utility array and at which genes are taken (here:
   the first gene of maximal utility; np.argsort of the utility array is another) makes the same
   choices under both orders *)
Lemma find_ext' {A} (f g : A -> bool) l : (forall x, f x = g x) -> find f l = find g l.
Proof. intros H. induction l as [|x t IH]; cbn; [reflexivity|]. rewrite H, IH. reflexivity. Qed.

Lemma first_max_same a b : same_state a b -> first_max n_genes a = first_max n_genes b.
Proof.
  intros E. pose proof E as (E1 & _ & _ & _ & E5). unfold first_max. apply find_ext'. intros g.
  rewrite (nmem_perm g _ _ E1), (E5 g), (max_utility_same _ _ E). reflexivity.
Qed.

Lemma greedy_same fuel : forall a b a', same_state a b -> greedy n_genes pairs marks n fuel a = Some a' ->
  exists b', greedy n_genes pairs' marks n fuel b = Some b' /\ same_state a' b'.
Proof.
  induction fuel as [|k IH]; intros a b a' E H; cbn in *; [discriminate|].
  pose proof (update_same a b E) as E'. rewrite <- (finished_same _ _ E').
  destruct (finished n_genes pairs (update_filled n_genes pairs marks n a)).
  - inversion H; subst a'. eexists. split; [reflexivity | exact E'].
  - rewrite <- (first_max_same _ _ E').
    destruct (first_max n_genes (update_filled n_genes pairs marks n a)) as [g|]; [|discriminate].
    apply (IH _ _ a' (choose_same _ _ g E') H).
Qed.

Theorem greedy_order_irrelevant fuel st :
  greedy n_genes pairs marks n fuel (start n_genes pairs marks n) = Some st ->
  exists st', greedy n_genes pairs' marks n fuel (start n_genes pairs' marks n) = Some st' /\
              Permutation (chosen st) (chosen st').
Proof.
  intros H. destruct (greedy_same fuel _ _ st start_same H) as (st' & G & (E1 & _)). exists st'. auto.
Qed.
End Order.

(* the two index arrays the pipeline can hand to _run_selection for one parent (global sorted
   = "behemoth", local = order of leaves_to_compare) are permutations of each other *)
Lemma parent_idx_perm rm t parent i1 i2 :
  parent_idx rm t parent true = Some i1 -> parent_idx rm t parent false = Some i2 -> Permutation i1 i2.
Proof.
  unfold parent_idx. destruct (opt_all _) as [idx|]; [|discriminate].
  intros H1 H2. inversion H1; inversion H2; subst. unfold nat_sort.
  eapply Permutation_trans; [apply Permutation_map, zsort_perm|].
  rewrite map_map. erewrite map_ext; [rewrite map_id; apply Permutation_refl|].
  intros x. apply Nat2Z.id.
Qed.

(* ------------------------------------------------------------------ thinning to the query genes *)
Lemma index_of_spec keep : NoDup keep -> forall i j, index_of i keep = Some j <-> nth_error keep j = Some i.
Proof.
  induction keep as [|y t IH]; intros ND i j; cbn.
  - split; [discriminate | destruct j; discriminate].
  - inversion ND as [|? ? Hy ND']; subst. destruct (Nat.eqb i y) eqn:E.
    + apply Nat.eqb_eq in E. subst y. split.
      * intros H. inversion H. reflexivity.
      * destruct j as [|j]; [reflexivity|]. cbn. intros H. apply nth_error_In in H. contradiction.
    + apply Nat.eqb_neq in E. destruct j as [|j]; cbn.
      * split; [destruct (index_of i t); discriminate | intros H; inversion H; congruence].
      * rewrite <- (IH ND' i j). destruct (index_of i t) as [k|]; cbn; split; intros H; inversion H; reflexivity.
Qed.

Lemma remap_spec keep l j : NoDup keep ->
  In j (remap keep l) <-> exists i, nth_error keep j = Some i /\ In i l.
Proof.
  intros ND. unfold remap. rewrite in_flat_map. split.
  - intros (i & Hi & H). destruct (index_of i keep) as [k|] eqn:E; [|destruct H].
    destruct H as [<-|[]]. exists i. split; [apply (index_of_spec keep ND); exact E | exact Hi].
  - intros (i & Hn & Hi). exists i. split; [exact Hi|]. apply (index_of_spec keep ND) in Hn. rewrite Hn. left. reflexivity.
Qed.

Lemma keep_idx_spec rm query i :
  In i (keep_idx rm query) <-> i < length (rm_genes rm) /\ In (nth i (rm_genes rm) 0%Z) query.
Proof. unfold keep_idx. rewrite filter_In, in_seq, zmem_in. split; intros [H1 H2]; split; auto; lia. Qed.
Lemma keep_idx_nodup rm query : NoDup (keep_idx rm query).
Proof. unfold keep_idx. apply NoDup_filter, seq_NoDup. Qed.

(* the thinned table: gene j of the thinned array is reference gene keep[j] (a reference gene that
   occurs in the query, reference order kept); it is listed for a pair and a direction iff
   reference gene keep[j] is listed there in the file; pairs and their positions are untouched *)
Theorem thinning_sound rm query :
  let keep := keep_idx rm query in
  rm_genes (thin_genes rm query) = map (fun i => nth i (rm_genes rm) 0%Z) keep /\
  (forall i, In i keep <-> i < length (rm_genes rm) /\ In (nth i (rm_genes rm) 0%Z) query) /\
  length (rm_pairs (thin_genes rm query)) = length (rm_pairs rm) /\
  forall k e, nth_error (rm_pairs rm) k = Some e ->
    exists e', nth_error (rm_pairs (thin_genes rm query)) k = Some e' /\ fst e' = fst e /\
      (forall j, In j (fst (snd e')) <-> exists i, nth_error keep j = Some i /\ In i (fst (snd e))) /\
      (forall j, In j (snd (snd e')) <-> exists i, nth_error keep j = Some i /\ In i (snd (snd e))).
Proof.
  cbv zeta. split; [reflexivity|]. split; [apply keep_idx_spec|]. split; [cbn; apply map_length|].
  intros k e H. unfold thin_genes. cbn [rm_pairs].
  eexists. split; [apply map_nth_error; exact H|]. cbn [fst snd]. split; [reflexivity|].
  split; intros j; apply remap_spec, keep_idx_nodup.
Qed.
