(* Generic wire format between the correspondence harness and the model:
   a tree of integers.  Decoders/encoders live in Gallina so that the OCaml
   driver is a dumb parser/printer. *)
From Coq Require Import ZArith List.
Import ListNotations.

Inductive sx : Type := I : Z -> sx | L : list sx -> sx.

Definition sx_Z (x : sx) : option Z := match x with I z => Some z | L _ => None end.
Definition sx_L (x : sx) : option (list sx) := match x with L l => Some l | I _ => None end.

Fixpoint opt_all {A} (l : list (option A)) : option (list A) :=
  match l with
  | [] => Some []
  | None :: _ => None
  | Some a :: t => match opt_all t with Some t' => Some (a :: t') | None => None end
  end.

Definition sx_list {A} (f : sx -> option A) (x : sx) : option (list A) :=
  match x with L l => opt_all (map f l) | I _ => None end.
Definition sx_LZ : sx -> option (list Z) := sx_list sx_Z.
Definition sx_LLZ : sx -> option (list (list Z)) := sx_list sx_LZ.
Definition sx_LLLZ : sx -> option (list (list (list Z))) := sx_list sx_LLZ.
Definition sx_nat (x : sx) : option nat :=
  match x with I z => if (z <? 0)%Z then None else Some (Z.to_nat z) | L _ => None end.
Definition sx_Lnat : sx -> option (list nat) := sx_list sx_nat.
Definition sx_LLnat : sx -> option (list (list nat)) := sx_list sx_Lnat.
Definition sx_bool (x : sx) : option bool :=
  match x with I z => Some (negb (z =? 0)%Z) | L _ => None end.
Definition sx_pair {A B} (f : sx -> option A) (g : sx -> option B) (x : sx) : option (A * B) :=
  match x with
  | L [a; b] => match f a, g b with Some a', Some b' => Some (a', b') | _, _ => None end
  | _ => None
  end.

Definition of_Z (z : Z) : sx := I z.
Definition of_nat (n : nat) : sx := I (Z.of_nat n).
Definition of_bool (b : bool) : sx := I (if b then 1 else 0)%Z.
Definition of_list {A} (f : A -> sx) (l : list A) : sx := L (map f l).
Definition of_LZ : list Z -> sx := of_list I.
Definition of_LLZ : list (list Z) -> sx := of_list of_LZ.
Definition of_Lnat : list nat -> sx := of_list of_nat.
Definition of_LLnat : list (list nat) -> sx := of_list of_Lnat.
Definition of_pair {A B} (f : A -> sx) (g : B -> sx) (p : A * B) : sx := L [f (fst p); g (snd p)].
Definition of_option {A} (f : A -> sx) (o : option A) : sx :=
  match o with Some a => L [f a] | None => L [] end.

(* results: Ok payload = (0 payload) ; Err code = (1 code) ; undecodable input = (2) *)
Definition sx_ok (x : sx) : sx := L [I 0%Z; x].
Definition sx_err (code : Z) : sx := L [I 1%Z; I code].
Definition sx_bad : sx := L [I 2%Z].

(* helpers for the driver: decimal <-> Z using Coq's own arithmetic *)
Definition z_push (acc d : Z) : Z := (acc * 10 + d)%Z.
Definition z_pop (z : Z) : Z * Z := Z.quotrem z 10.
Definition z_neg (z : Z) : Z := Z.opp z.
Definition z_is_zero (z : Z) : bool := (z =? 0)%Z.
Definition z_is_neg (z : Z) : bool := (z <? 0)%Z.
