(* Insertion sort on Z (models list.sort() / sorted() on order-preserving
   integer names) with its basic facts. Stdlib only. *)
From Coq Require Import ZArith List Bool Lia Permutation Sorted.
Import ListNotations.
Open Scope Z_scope.

Fixpoint zinsert (x : Z) (l : list Z) : list Z :=
  match l with
  | [] => [x]
  | y :: t => if x <=? y then x :: y :: t else y :: zinsert x t
  end.
Definition zsort (l : list Z) : list Z := fold_right zinsert [] l.

Lemma zinsert_perm x l : Permutation (zinsert x l) (x :: l).
Proof.
  induction l as [|y t IH]; cbn; [reflexivity|].
  destruct (x <=? y); [reflexivity|].
  rewrite IH. apply perm_swap.
Qed.

Lemma zsort_perm l : Permutation (zsort l) l.
Proof.
  induction l as [|x t IH]; cbn; [reflexivity|].
  rewrite zinsert_perm. constructor. exact IH.
Qed.

Lemma zinsert_sorted x l : Sorted Z.le l -> Sorted Z.le (zinsert x l).
Proof.
  induction l as [|y t IH]; intros H; cbn; [repeat constructor|].
  destruct (x <=? y) eqn:E.
  - apply Z.leb_le in E. constructor; [exact H | constructor; exact E].
  - apply Z.leb_gt in E. inversion H as [|? ? Ht Hhd]; subst.
    constructor; [apply IH; exact Ht|].
    destruct t as [|z t']; cbn.
    + constructor. lia.
    + destruct (x <=? z); constructor; [lia|].
      inversion Hhd; subst. assumption.
Qed.

Lemma zsort_sorted l : Sorted Z.le (zsort l).
Proof. induction l as [|x t IH]; cbn; [constructor | apply zinsert_sorted; exact IH]. Qed.

Lemma zsort_in x l : In x (zsort l) <-> In x l.
Proof.
  split; intros H.
  - eapply Permutation_in; [apply zsort_perm | exact H].
  - eapply Permutation_in; [apply Permutation_sym, zsort_perm | exact H].
Qed.

Lemma zsort_length l : length (zsort l) = length l.
Proof. apply Permutation_length, zsort_perm. Qed.

Lemma zsort_nodup l : NoDup l -> NoDup (zsort l).
Proof. intros H. eapply Permutation_NoDup; [apply Permutation_sym, zsort_perm | exact H]. Qed.

(* membership / association on Z keys *)
Definition zmem (x : Z) (l : list Z) : bool := existsb (Z.eqb x) l.

Lemma zmem_in x l : zmem x l = true <-> In x l.
Proof.
  unfold zmem. rewrite existsb_exists. split.
  - intros (y & Hy & E). apply Z.eqb_eq in E. subst. exact Hy.
  - intros H. exists x. split; [exact H | apply Z.eqb_refl].
Qed.

Lemma zmem_false x l : zmem x l = false <-> ~ In x l.
Proof. rewrite <- zmem_in. destruct (zmem x l); split; congruence. Qed.

Fixpoint zassoc {A} (k : Z) (l : list (Z * A)) : option A :=
  match l with
  | [] => None
  | (k', v) :: t => if k =? k' then Some v else zassoc k t
  end.

Lemma zassoc_in {A} k (l : list (Z * A)) v : zassoc k l = Some v -> In (k, v) l.
Proof.
  induction l as [|[k' v'] t IH]; cbn; [discriminate|].
  destruct (k =? k') eqn:E.
  - apply Z.eqb_eq in E. intros H; inversion H; subst. left; reflexivity.
  - intros H. right. apply IH. exact H.
Qed.

Lemma zassoc_none {A} k (l : list (Z * A)) : zassoc k l = None <-> ~ In k (map fst l).
Proof.
  induction l as [|[k' v'] t IH]; cbn; [tauto|].
  destruct (k =? k') eqn:E.
  - apply Z.eqb_eq in E. subst. split; [discriminate | intros H; exfalso; apply H; left; reflexivity].
  - apply Z.eqb_neq in E. rewrite IH. split; [intros H [H1|H1]; [congruence | contradiction] | tauto].
Qed.

Lemma zassoc_nodup_in {A} k v (l : list (Z * A)) :
  NoDup (map fst l) -> In (k, v) l -> zassoc k l = Some v.
Proof.
  induction l as [|[k' v'] t IH]; cbn; intros ND Hin; [destruct Hin|].
  inversion ND; subst.
  destruct Hin as [H | H].
  - inversion H; subst. rewrite Z.eqb_refl. reflexivity.
  - destruct (k =? k') eqn:E.
    + apply Z.eqb_eq in E. subst. exfalso. apply H1. apply (in_map fst) in H. exact H.
    + apply IH; assumption.
Qed.

Fixpoint znodup_b (l : list Z) : bool :=
  match l with
  | [] => true
  | x :: t => negb (zmem x t) && znodup_b t
  end.

Lemma znodup_b_spec l : znodup_b l = true <-> NoDup l.
Proof.
  induction l as [|x t IH]; cbn; [split; [constructor | reflexivity]|].
  rewrite andb_true_iff, negb_true_iff, zmem_false, IH.
  split; [intros [H1 H2]; constructor; assumption | intros H; inversion H; auto].
Qed.
