(* List lemmas missing from Coq 8.16's standard library. Stdlib only. *)
From Coq Require Import List Arith Lia.
Import ListNotations.

Lemma firstn_add {A} (n m : nat) (l : list A) :
  firstn (n + m) l = firstn n l ++ firstn m (skipn n l).
Proof.
  revert l. induction n as [|n IH]; intros l; cbn; [reflexivity|].
  destruct l as [|x t]; cbn; [rewrite firstn_nil; reflexivity|]. rewrite IH. reflexivity.
Qed.

Lemma skipn_skipn {A} (n m : nat) (l : list A) : skipn n (skipn m l) = skipn (m + n) l.
Proof.
  revert l. induction m as [|m IH]; intros l; cbn; [reflexivity|].
  destruct l as [|x t]; [rewrite skipn_nil; reflexivity|]. apply IH.
Qed.

Lemma nth_error_firstn {A} (l : list A) n i : i < n -> nth_error (firstn n l) i = nth_error l i.
Proof.
  revert l i. induction n as [|n IH]; intros l i H; [lia|].
  destruct l as [|x t]; [destruct i; reflexivity|].
  destruct i as [|i]; cbn; [reflexivity|]. apply IH. lia.
Qed.

Lemma nth_error_skipn {A} (l : list A) n i : nth_error (skipn n l) i = nth_error l (n + i).
Proof.
  revert l. induction n as [|n IH]; intros l; cbn; [reflexivity|].
  destruct l as [|x t]; [destruct i; reflexivity|]. apply IH.
Qed.

Lemma Forall2_length {A B} (R : A -> B -> Prop) l1 l2 : Forall2 R l1 l2 -> length l1 = length l2.
Proof. induction 1; cbn; congruence. Qed.

Lemma Forall2_nth_error {A B} (R : A -> B -> Prop) l1 l2 i a b :
  Forall2 R l1 l2 -> nth_error l1 i = Some a -> nth_error l2 i = Some b -> R a b.
Proof.
  intros H. revert i. induction H as [|x y l1 l2 Hxy H IH]; intros i H1 H2; [destruct i; discriminate|].
  destruct i as [|i]; cbn in *; [congruence|]. eapply IH; eauto.
Qed.

Lemma filter_length_le {A} (f : A -> bool) l : length (filter f l) <= length l.
Proof. induction l as [|x t IH]; cbn; [lia|]. destruct (f x); cbn; lia. Qed.

Lemma map_nth_error_inv {A B} (f : A -> B) l i y :
  nth_error (map f l) i = Some y -> exists x, nth_error l i = Some x /\ y = f x.
Proof.
  revert i. induction l as [|a t IH]; intros i H; [destruct i; discriminate|].
  destruct i as [|i]; cbn in *; [inversion H; eauto|]. apply IH. exact H.
Qed.

Lemma concat_length_sum {A} (ll : list (list A)) :
  length (concat ll) = fold_right (fun l acc => length l + acc) 0 ll.
Proof. induction ll as [|l t IH]; cbn; [reflexivity|]. rewrite app_length, IH. reflexivity. Qed.

Lemma in_seq_iff a n x : In x (seq a n) <-> a <= x < a + n.
Proof. apply in_seq. Qed.

Lemma NoDup_app {A} (l1 l2 : list A) :
  NoDup l1 -> NoDup l2 -> (forall x, In x l1 -> ~ In x l2) -> NoDup (l1 ++ l2).
Proof.
  induction l1 as [|x t IH]; intros H1 H2 Hd; cbn; [exact H2|].
  inversion H1; subst. constructor.
  - rewrite in_app_iff. intros [Hi|Hi]; [contradiction|]. apply (Hd x); [left; reflexivity | exact Hi].
  - apply IH; auto. intros y Hy. apply Hd. right. exact Hy.
Qed.

Lemma NoDup_app_inv {A} (l1 l2 : list A) :
  NoDup (l1 ++ l2) -> NoDup l1 /\ NoDup l2 /\ (forall x, In x l1 -> ~ In x l2).
Proof.
  induction l1 as [|x t IH]; cbn; intros H.
  - split; [constructor|]. split; [exact H|]. intros x [].
  - inversion H; subst. destruct (IH H3) as (A1 & A2 & A3).
    split; [constructor; [rewrite in_app_iff in H2; tauto | exact A1]|].
    split; [exact A2|].
    intros y [<-|Hy]; [rewrite in_app_iff in H2; tauto | apply A3; exact Hy].
Qed.
